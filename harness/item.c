/* Work-item model: generation of valid work items per suite, mapping onto job descriptors, and
 * the expected effect of each item computed with the independent reference models. */
#include "imbv.h"
#include <openssl/hmac.h>
#include <openssl/sha.h>
#include <openssl/md5.h>
#include <openssl/evp.h>

/* ------------------------------------------------------------------ names */

/* one suite (and direction) per out-of-order manager of the library (lib/x86_64/alloc.c: ooo_mgr_table), so that
 * history-based engines (re-init, crash, threads) park jobs in every one of them */
static const struct {
        const char *name;
        int fam; /* 0 cipher 1 hash 2 aead */
        int dir; /* 0 any */
} ooo_tab[] = {
        { "aes-cbc-128", 0, IMB_DIR_ENCRYPT },     { "aes-cbc-192", 0, IMB_DIR_ENCRYPT },     { "aes-cbc-256", 0, IMB_DIR_ENCRYPT },
        { "docsis-sec-128", 0, IMB_DIR_ENCRYPT },  { "docsis-sec-256", 0, IMB_DIR_ENCRYPT },  { "docsis-crc32-128", 2, IMB_DIR_ENCRYPT },
        { "docsis-crc32-256", 2, IMB_DIR_ENCRYPT }, { "des-cbc", 0, IMB_DIR_ENCRYPT },        { "des-cbc", 0, IMB_DIR_DECRYPT },
        { "3des-cbc", 0, IMB_DIR_ENCRYPT },        { "3des-cbc", 0, IMB_DIR_DECRYPT },        { "docsis-des", 0, IMB_DIR_ENCRYPT },
        { "docsis-des", 0, IMB_DIR_DECRYPT },      { "hmac-sha1", 1, 0 },                     { "hmac-sha224", 1, 0 },
        { "hmac-sha256", 1, 0 },                   { "hmac-sha384", 1, 0 },                   { "hmac-sha512", 1, 0 },
        { "hmac-md5", 1, 0 },                      { "aes-xcbc", 1, 0 },                      { "aes-ccm-128", 2, 0 },
        { "aes-ccm-256", 2, 0 },                   { "aes-cmac", 1, 0 },                      { "aes-cmac-256", 1, 0 },
        { "aes-cmac-bit", 1, 0 },                  { "aes-cbcs-128", 0, IMB_DIR_ENCRYPT },    { "zuc-eea3-128", 0, 0 },
        { "zuc-eea3-256", 0, 0 },                  { "zuc-eia3", 1, 0 },                      { "zuc256-eia3", 1, 0 },
        { "snow3g-uea2", 0, 0 },                   { "snow3g-uia2", 1, 0 },                   { "sha1", 1, 0 },
        { "sha224", 1, 0 },                        { "sha256", 1, 0 },                        { "sha384", 1, 0 },
        { "sha512", 1, 0 },                        { "aes-cfb-128", 0, IMB_DIR_ENCRYPT },     { "aes-cfb-192", 0, IMB_DIR_ENCRYPT },
        { "aes-cfb-256", 0, IMB_DIR_ENCRYPT },
};
int
item_ooo_count(void)
{
        return (int) ARRAY_SZ(ooo_tab);
}
int
item_pick_ooo(struct rng *r, const struct suite **cs, const struct suite **hs, int *dir)
{
        return item_ooo_by_index((int) rng_below(r, ARRAY_SZ(ooo_tab)), cs, hs, dir);
}
int
item_ooo_by_index(int idx, const struct suite **cs, const struct suite **hs, int *dir)
{
        unsigned k = (unsigned) idx % ARRAY_SZ(ooo_tab);
        const struct suite *t = ooo_tab[k].fam == 0 ? g_cipher_suites : ooo_tab[k].fam == 1 ? g_hash_suites : g_aead_suites;
        int n = ooo_tab[k].fam == 0 ? g_n_cipher_suites : ooo_tab[k].fam == 1 ? g_n_hash_suites : g_n_aead_suites;
        *cs = *hs = NULL;
        *dir = ooo_tab[k].dir;
        for (int i = 0; i < n; i++)
                if (!strcmp(t[i].name, ooo_tab[k].name)) {
                        if (ooo_tab[k].fam == 1)
                                *hs = &t[i];
                        else
                                *cs = &t[i];
                        return (int) k;
                }
        harness_fail("item_pick_ooo: suite %s missing", ooo_tab[k].name);
}

const char *
cipher_name(int c)
{
        static const char *n[] = { "0", "CBC", "CNTR", "NULL", "DOCSIS_SEC_BPI", "GCM", "CUSTOM", "DES",
                                   "DOCSIS_DES", "CCM", "DES3", "PON_AES_CNTR", "ECB", "CNTR_BITLEN",
                                   "ZUC_EEA3", "SNOW3G_UEA2_BITLEN", "KASUMI_UEA1_BITLEN", "CBCS_1_9",
                                   "CHACHA20", "CHACHA20_POLY1305", "CHACHA20_POLY1305_SGL", "SNOW_V",
                                   "SNOW_V_AEAD", "GCM_SGL", "SM4_ECB", "SM4_CBC", "CFB", "SM4_CNTR",
                                   "SM4_GCM" };
        return (c >= 0 && c < (int) ARRAY_SZ(n)) ? n[c] : "?";
}
const char *
hash_name(int h)
{
        static const char *n[] = { "0", "HMAC_SHA_1", "HMAC_SHA_224", "HMAC_SHA_256", "HMAC_SHA_384",
                                   "HMAC_SHA_512", "AES_XCBC", "HMAC_MD5", "NULL", "AES_GMAC", "CUSTOM",
                                   "AES_CCM", "AES_CMAC", "SHA_1", "SHA_224", "SHA_256", "SHA_384",
                                   "SHA_512", "AES_CMAC_BITLEN", "PON_CRC_BIP", "ZUC_EIA3_BITLEN",
                                   "DOCSIS_CRC32", "SNOW3G_UIA2_BITLEN", "KASUMI_UIA1", "AES_GMAC_128",
                                   "AES_GMAC_192", "AES_GMAC_256", "AES_CMAC_256", "POLY1305",
                                   "CHACHA20_POLY1305", "CHACHA20_POLY1305_SGL", "ZUC256_EIA3_BITLEN",
                                   "SNOW_V_AEAD", "GCM_SGL", "CRC32_ETHERNET_FCS", "CRC32_SCTP",
                                   "CRC32_WIMAX_OFDMA_DATA", "CRC24_LTE_A", "CRC24_LTE_B", "CRC16_X25",
                                   "CRC16_FP_DATA", "CRC11_FP_HEADER", "CRC10_IUUP_DATA",
                                   "CRC8_WIMAX_OFDMA_HCS", "CRC7_FP_HEADER", "CRC6_IUUP_HEADER", "GHASH",
                                   "SM3", "HMAC_SM3", "SM4_GCM" };
        return (h >= 0 && h < (int) ARRAY_SZ(n)) ? n[h] : "?";
}

/* ------------------------------------------------------------------ suite tables */
#define CS(n, c, k) { n, c, k, IMB_AUTH_NULL, 0 }
const struct suite g_cipher_suites[] = {
        CS("aes-cbc-128", IMB_CIPHER_CBC, 16),
        CS("aes-cbc-192", IMB_CIPHER_CBC, 24),
        CS("aes-cbc-256", IMB_CIPHER_CBC, 32),
        CS("aes-ctr-128", IMB_CIPHER_CNTR, 16),
        CS("aes-ctr-192", IMB_CIPHER_CNTR, 24),
        CS("aes-ctr-256", IMB_CIPHER_CNTR, 32),
        CS("aes-ctr-bit-128", IMB_CIPHER_CNTR_BITLEN, 16),
        CS("aes-ctr-bit-192", IMB_CIPHER_CNTR_BITLEN, 24),
        CS("aes-ctr-bit-256", IMB_CIPHER_CNTR_BITLEN, 32),
        CS("aes-ecb-128", IMB_CIPHER_ECB, 16),
        CS("aes-ecb-192", IMB_CIPHER_ECB, 24),
        CS("aes-ecb-256", IMB_CIPHER_ECB, 32),
        CS("aes-cfb-128", IMB_CIPHER_CFB, 16),
        CS("aes-cfb-192", IMB_CIPHER_CFB, 24),
        CS("aes-cfb-256", IMB_CIPHER_CFB, 32),
        CS("aes-cbcs-128", IMB_CIPHER_CBCS_1_9, 16),
        CS("docsis-sec-128", IMB_CIPHER_DOCSIS_SEC_BPI, 16),
        CS("docsis-sec-256", IMB_CIPHER_DOCSIS_SEC_BPI, 32),
        CS("des-cbc", IMB_CIPHER_DES, 8),
        CS("3des-cbc", IMB_CIPHER_DES3, 24),
        CS("docsis-des", IMB_CIPHER_DOCSIS_DES, 8),
        CS("chacha20", IMB_CIPHER_CHACHA20, 32),
        CS("zuc-eea3-128", IMB_CIPHER_ZUC_EEA3, 16),
        CS("zuc-eea3-256", IMB_CIPHER_ZUC_EEA3, 32),
        CS("snow3g-uea2", IMB_CIPHER_SNOW3G_UEA2_BITLEN, 16),
        CS("kasumi-uea1", IMB_CIPHER_KASUMI_UEA1_BITLEN, 16),
        CS("snow-v", IMB_CIPHER_SNOW_V, 32),
        CS("sm4-ecb", IMB_CIPHER_SM4_ECB, 16),
        CS("sm4-cbc", IMB_CIPHER_SM4_CBC, 16),
        CS("sm4-ctr", IMB_CIPHER_SM4_CNTR, 16),
};
const int g_n_cipher_suites = ARRAY_SZ(g_cipher_suites);
#define HS(n, h) { n, IMB_CIPHER_NULL, 0, h, 0 }
const struct suite g_hash_suites[] = {
        HS("hmac-sha1", IMB_AUTH_HMAC_SHA_1),
        HS("hmac-sha224", IMB_AUTH_HMAC_SHA_224),
        HS("hmac-sha256", IMB_AUTH_HMAC_SHA_256),
        HS("hmac-sha384", IMB_AUTH_HMAC_SHA_384),
        HS("hmac-sha512", IMB_AUTH_HMAC_SHA_512),
        HS("hmac-md5", IMB_AUTH_MD5),
        HS("sha1", IMB_AUTH_SHA_1),
        HS("sha224", IMB_AUTH_SHA_224),
        HS("sha256", IMB_AUTH_SHA_256),
        HS("sha384", IMB_AUTH_SHA_384),
        HS("sha512", IMB_AUTH_SHA_512),
        HS("aes-xcbc", IMB_AUTH_AES_XCBC),
        HS("aes-cmac", IMB_AUTH_AES_CMAC),
        HS("aes-cmac-bit", IMB_AUTH_AES_CMAC_BITLEN),
        HS("aes-cmac-256", IMB_AUTH_AES_CMAC_256),
        HS("aes-gmac-128", IMB_AUTH_AES_GMAC_128),
        HS("aes-gmac-192", IMB_AUTH_AES_GMAC_192),
        HS("aes-gmac-256", IMB_AUTH_AES_GMAC_256),
        HS("ghash", IMB_AUTH_GHASH),
        HS("poly1305", IMB_AUTH_POLY1305),
        HS("zuc-eia3", IMB_AUTH_ZUC_EIA3_BITLEN),
        HS("zuc256-eia3", IMB_AUTH_ZUC256_EIA3_BITLEN),
        HS("snow3g-uia2", IMB_AUTH_SNOW3G_UIA2_BITLEN),
        HS("kasumi-uia1", IMB_AUTH_KASUMI_UIA1),
        HS("sm3", IMB_AUTH_SM3),
        HS("hmac-sm3", IMB_AUTH_HMAC_SM3),
        HS("crc32-eth", IMB_AUTH_CRC32_ETHERNET_FCS),
        HS("crc32-sctp", IMB_AUTH_CRC32_SCTP),
        HS("crc32-wimax", IMB_AUTH_CRC32_WIMAX_OFDMA_DATA),
        HS("crc24-lte-a", IMB_AUTH_CRC24_LTE_A),
        HS("crc24-lte-b", IMB_AUTH_CRC24_LTE_B),
        HS("crc16-x25", IMB_AUTH_CRC16_X25),
        HS("crc16-fp", IMB_AUTH_CRC16_FP_DATA),
        HS("crc11-fp", IMB_AUTH_CRC11_FP_HEADER),
        HS("crc10-iuup", IMB_AUTH_CRC10_IUUP_DATA),
        HS("crc8-wimax", IMB_AUTH_CRC8_WIMAX_OFDMA_HCS),
        HS("crc7-fp", IMB_AUTH_CRC7_FP_HEADER),
        HS("crc6-iuup", IMB_AUTH_CRC6_IUUP_HEADER),
};
const int g_n_hash_suites = ARRAY_SZ(g_hash_suites);
#define AS(n, c, k, h) { n, c, k, h, 1 }
const struct suite g_aead_suites[] = {
        AS("aes-gcm-128", IMB_CIPHER_GCM, 16, IMB_AUTH_AES_GMAC),
        AS("aes-gcm-192", IMB_CIPHER_GCM, 24, IMB_AUTH_AES_GMAC),
        AS("aes-gcm-256", IMB_CIPHER_GCM, 32, IMB_AUTH_AES_GMAC),
        AS("aes-ccm-128", IMB_CIPHER_CCM, 16, IMB_AUTH_AES_CCM),
        AS("aes-ccm-256", IMB_CIPHER_CCM, 32, IMB_AUTH_AES_CCM),
        AS("chacha20-poly1305", IMB_CIPHER_CHACHA20_POLY1305, 32, IMB_AUTH_CHACHA20_POLY1305),
        AS("snow-v-aead", IMB_CIPHER_SNOW_V_AEAD, 32, IMB_AUTH_SNOW_V_AEAD),
        AS("sm4-gcm", IMB_CIPHER_SM4_GCM, 16, IMB_AUTH_SM4_GCM),
        AS("docsis-crc32-128", IMB_CIPHER_DOCSIS_SEC_BPI, 16, IMB_AUTH_DOCSIS_CRC32),
        AS("docsis-crc32-256", IMB_CIPHER_DOCSIS_SEC_BPI, 32, IMB_AUTH_DOCSIS_CRC32),
        AS("pon-aes-ctr", IMB_CIPHER_PON_AES_CNTR, 16, IMB_AUTH_PON_CRC_BIP),
};
const int g_n_aead_suites = ARRAY_SZ(g_aead_suites);

/* ------------------------------------------------------------------ CRC parameter table */
static const struct ref_crc_params *
crc_params(IMB_HASH_ALG h)
{
        static const struct ref_crc_params p[] = {
                { "CRC32_ETHERNET_FCS", 32, 0x04c11db7, 0xffffffff, 1, 1, 0xffffffff },
                { "CRC32_SCTP", 32, 0x1edc6f41, 0, 0, 0, 0 }, /* polynomial from RFC 3309; bit order/init: see DESIGN.md */
                { "CRC32_WIMAX_OFDMA_DATA", 32, 0x04c11db7, 0xffffffff, 0, 0, 0xffffffff },
                { "CRC24_LTE_A", 24, 0x864cfb, 0, 0, 0, 0 },
                { "CRC24_LTE_B", 24, 0x800063, 0, 0, 0, 0 },
                { "CRC16_X25", 16, 0x1021, 0xffff, 1, 1, 0xffff },
                { "CRC16_FP_DATA", 16, 0x8005, 0, 0, 0, 0 },
                { "CRC11_FP_HEADER", 11, 0x307, 0, 0, 0, 0 },
                { "CRC10_IUUP_DATA", 10, 0x233, 0, 0, 0, 0 },
                { "CRC8_WIMAX_OFDMA_HCS", 8, 0x07, 0, 0, 0, 0 },
                { "CRC7_FP_HEADER", 7, 0x45, 0, 0, 0, 0 },
                { "CRC6_IUUP_HEADER", 6, 0x2f, 0, 0, 0, 0 },
        };
        if (h < IMB_AUTH_CRC32_ETHERNET_FCS || h > IMB_AUTH_CRC6_IUUP_HEADER)
                return NULL;
        return &p[h - IMB_AUTH_CRC32_ETHERNET_FCS];
}

/* ------------------------------------------------------------------ lifecycle */
struct item *
item_new(void)
{
        struct item *it = calloc(1, sizeof *it);
        return it;
}
static void
item_release_bufs(struct item *it)
{
        free(it->src_orig);
        free(it->exp_dst);
        free(it->exp_src);
        it->src_orig = it->exp_dst = it->exp_src = NULL;
}
void
item_free(struct item *it)
{
        if (!it)
                return;
        item_release_bufs(it);
        free(it);
}
void
genopt_default(struct genopt *g)
{
        memset(g, 0, sizeof *g);
        g->len = -1;
        g->inplace = -1;
        g->pl = PL_END;
        g->aad_len = -1;
        g->off = -1;
}

/* ------------------------------------------------------------------ properties of suites */
static unsigned
cipher_block(IMB_CIPHER_MODE c)
{
        switch (c) {
        case IMB_CIPHER_CBC:
        case IMB_CIPHER_ECB:
        case IMB_CIPHER_CFB:
        case IMB_CIPHER_CBCS_1_9:
        case IMB_CIPHER_SM4_ECB:
        case IMB_CIPHER_SM4_CBC:
                return 16;
        case IMB_CIPHER_DES:
        case IMB_CIPHER_DES3:
                return 8;
        default:
                return 1;
        }
}
static int
cipher_zero_len_ok(IMB_CIPHER_MODE c)
{
        switch (c) {
        case IMB_CIPHER_GCM:
        case IMB_CIPHER_CCM:
        case IMB_CIPHER_CHACHA20_POLY1305:
        case IMB_CIPHER_SNOW_V:
        case IMB_CIPHER_SNOW_V_AEAD:
        case IMB_CIPHER_SM4_GCM:
        case IMB_CIPHER_DOCSIS_SEC_BPI:
        case IMB_CIPHER_PON_AES_CNTR:
        case IMB_CIPHER_CFB:
                return 1;
        default:
                return 0;
        }
}
static int
cipher_is_bitlen(IMB_CIPHER_MODE c)
{
        return c == IMB_CIPHER_CNTR_BITLEN || c == IMB_CIPHER_SNOW3G_UEA2_BITLEN ||
               c == IMB_CIPHER_KASUMI_UEA1_BITLEN;
}
static int
hash_is_bitlen(IMB_HASH_ALG h)
{
        return h == IMB_AUTH_AES_CMAC_BITLEN || h == IMB_AUTH_ZUC_EIA3_BITLEN ||
               h == IMB_AUTH_ZUC256_EIA3_BITLEN || h == IMB_AUTH_SNOW3G_UIA2_BITLEN;
}
/* maximum message length (bytes) accepted for the cipher in the given direction */
static uint32_t
cipher_max_len(IMB_CIPHER_MODE c, IMB_CIPHER_DIRECTION d)
{
        switch (c) {
        case IMB_CIPHER_CBC:
        case IMB_CIPHER_CFB:
                return d == IMB_DIR_ENCRYPT ? 65520 : 1 << 20;
        case IMB_CIPHER_ECB:
        case IMB_CIPHER_DES:
        case IMB_CIPHER_DES3:
                return 65528;
        case IMB_CIPHER_DOCSIS_SEC_BPI:
        case IMB_CIPHER_DOCSIS_DES:
        case IMB_CIPHER_CCM:
                return 65534;
        case IMB_CIPHER_SM4_CBC:
                return 65520;
        case IMB_CIPHER_ZUC_EEA3:
                return 8188; /* 65504 bits */
        case IMB_CIPHER_KASUMI_UEA1_BITLEN:
                return 2500;
        default:
                return 1 << 20;
        }
}
/* maximum accepted hash length in bytes */
static uint32_t
hash_max_len(IMB_HASH_ALG h)
{
        switch (h) {
        case IMB_AUTH_ZUC_EIA3_BITLEN:
        case IMB_AUTH_ZUC256_EIA3_BITLEN:
                return 8188;
        case IMB_AUTH_KASUMI_UIA1:
                return 2500;
        case IMB_AUTH_POLY1305:
        case IMB_AUTH_SNOW3G_UIA2_BITLEN:
        case IMB_AUTH_AES_GMAC_128:
        case IMB_AUTH_AES_GMAC_192:
        case IMB_AUTH_AES_GMAC_256:
        case IMB_AUTH_GHASH:
        case IMB_AUTH_SM3:
        case IMB_AUTH_HMAC_SM3:
                return 1 << 20;
        default:
                if (h >= IMB_AUTH_CRC32_ETHERNET_FCS && h <= IMB_AUTH_CRC6_IUUP_HEADER)
                        return 1 << 20;
                return 65534;
        }
}

/* permitted tag lengths: returns count, fills list */
static int
tag_lens(IMB_HASH_ALG h, int *l)
{
        int n = 0;
        switch (h) {
        case IMB_AUTH_HMAC_SHA_1:
                l[n++] = 12;
                l[n++] = 20;
                break;
        case IMB_AUTH_HMAC_SHA_224:
                l[n++] = 14;
                l[n++] = 28;
                break;
        case IMB_AUTH_HMAC_SHA_256:
                l[n++] = 16;
                l[n++] = 32;
                break;
        case IMB_AUTH_HMAC_SHA_384:
                l[n++] = 24;
                l[n++] = 48;
                break;
        case IMB_AUTH_HMAC_SHA_512:
                l[n++] = 32;
                l[n++] = 64;
                break;
        case IMB_AUTH_MD5:
                l[n++] = 12;
                l[n++] = 16;
                break;
        case IMB_AUTH_AES_XCBC:
                l[n++] = 12;
                break;
        case IMB_AUTH_SHA_1:
                l[n++] = 20;
                break;
        case IMB_AUTH_SHA_224:
                l[n++] = 28;
                break;
        case IMB_AUTH_SHA_256:
                l[n++] = 32;
                break;
        case IMB_AUTH_SHA_384:
                l[n++] = 48;
                break;
        case IMB_AUTH_SHA_512:
                l[n++] = 64;
                break;
        case IMB_AUTH_AES_GMAC:
        case IMB_AUTH_AES_GMAC_128:
        case IMB_AUTH_AES_GMAC_192:
        case IMB_AUTH_AES_GMAC_256:
        case IMB_AUTH_AES_CMAC:
        case IMB_AUTH_AES_CMAC_BITLEN:
        case IMB_AUTH_AES_CMAC_256:
        case IMB_AUTH_SM4_GCM:
        case IMB_AUTH_GHASH:
                for (int i = 1; i <= 16; i++)
                        l[n++] = i;
                break;
        case IMB_AUTH_AES_CCM:
                for (int i = 4; i <= 16; i += 2)
                        l[n++] = i;
                break;
        case IMB_AUTH_ZUC256_EIA3_BITLEN:
                l[n++] = 4;
                l[n++] = 8;
                l[n++] = 16;
                break;
        case IMB_AUTH_SM3:
        case IMB_AUTH_HMAC_SM3:
                for (int i = 1; i <= 32; i++)
                        l[n++] = i;
                break;
        case IMB_AUTH_PON_CRC_BIP:
                l[n++] = 8;
                break;
        case IMB_AUTH_POLY1305:
        case IMB_AUTH_CHACHA20_POLY1305:
        case IMB_AUTH_SNOW_V_AEAD:
                l[n++] = 16;
                break;
        default:
                l[n++] = 4;
        }
        return n;
}
int
item_permitted_tag_lens(IMB_HASH_ALG h, int *l)
{
        return tag_lens(h, l);
}

int
item_is_parking(const struct item *it, int variant)
{
        int avx512 = (variant >> 3) == IMB_ARCH_AVX512;
        switch (it->cipher) {
        case IMB_CIPHER_CBC:
        case IMB_CIPHER_CBCS_1_9:
        case IMB_CIPHER_CFB:
        case IMB_CIPHER_DOCSIS_SEC_BPI:
                if (it->dir == IMB_DIR_ENCRYPT)
                        return 1;
                break;
        case IMB_CIPHER_DES:
        case IMB_CIPHER_DES3:
        case IMB_CIPHER_DOCSIS_DES:
                if (avx512)
                        return 1;
                break;
        case IMB_CIPHER_ZUC_EEA3:
        case IMB_CIPHER_SNOW3G_UEA2_BITLEN:
                return 1;
        default:
                break;
        }
        switch (it->hash) {
        case IMB_AUTH_HMAC_SHA_1:
        case IMB_AUTH_HMAC_SHA_224:
        case IMB_AUTH_HMAC_SHA_256:
        case IMB_AUTH_HMAC_SHA_384:
        case IMB_AUTH_HMAC_SHA_512:
        case IMB_AUTH_MD5:
        case IMB_AUTH_SHA_1:
        case IMB_AUTH_SHA_224:
        case IMB_AUTH_SHA_256:
        case IMB_AUTH_SHA_384:
        case IMB_AUTH_SHA_512:
        case IMB_AUTH_AES_XCBC:
        case IMB_AUTH_AES_CCM:
        case IMB_AUTH_AES_CMAC:
        case IMB_AUTH_AES_CMAC_BITLEN:
        case IMB_AUTH_AES_CMAC_256:
        case IMB_AUTH_ZUC_EIA3_BITLEN:
        case IMB_AUTH_ZUC256_EIA3_BITLEN:
        case IMB_AUTH_SNOW3G_UIA2_BITLEN:
                return 1;
        default:
                break;
        }
        return 0;
}

/* ------------------------------------------------------------------ key preparation (through the
 * library's own helpers, monitored) */
static void *
galloc(const struct item *it, const char *kind, size_t n, size_t align)
{
        return guard_alloc(it->slot, kind, n, align, it->pl);
}

static void *
kalloc(struct item *it, const char *kind, size_t n, size_t align, int cls)
{
        void *p = galloc(it, kind, n, align);
        if (it->k.nobjs < (int) ARRAY_SZ(it->k.objs)) {
                it->k.objs[it->k.nobjs].p = p;
                it->k.objs[it->k.nobjs].n = n;
                it->k.objs[it->k.nobjs].cls = cls;
                it->k.nobjs++;
        }
        return p;
}

static void
prep_cipher_keys(struct item *it, struct mmgr *km)
{
        IMB_MGR *m = km->m;
        struct keymat *k = &it->k;
        switch (it->cipher) {
        case IMB_CIPHER_CBC:
        case IMB_CIPHER_CNTR:
        case IMB_CIPHER_CNTR_BITLEN:
        case IMB_CIPHER_ECB:
        case IMB_CIPHER_CFB:
        case IMB_CIPHER_CBCS_1_9:
        case IMB_CIPHER_DOCSIS_SEC_BPI:
        case IMB_CIPHER_CCM:
        case IMB_CIPHER_PON_AES_CNTR: {
                size_t sz = 16 * (it->keylen / 4 + 7);
                DECLARE_ALIGNED(uint8_t e[240], 16);
                DECLARE_ALIGNED(uint8_t d[240], 16);
                void *fn = it->keylen == 16 ? (void *) m->keyexp_128
                           : it->keylen == 24 ? (void *) m->keyexp_192
                                               : (void *) m->keyexp_256;
                mcall("keyexp", fn, 3, (uint64_t) k->ckey, (uint64_t) e, (uint64_t) d);
                k->enc = kalloc(it, "enckey", sz, 16, 0);
                memcpy(k->enc, e, sz);
                if (it->cipher == IMB_CIPHER_CFB) {
                        /* CFB decryption runs the forward cipher: the library's own tests pass
                         * the encryption schedule in both pointers */
                        k->dec = k->enc;
                } else {
                        k->dec = kalloc(it, "deckey", sz, 16, 0);
                        memcpy(k->dec, d, sz);
                }
                break;
        }
        case IMB_CIPHER_GCM:
        case IMB_CIPHER_GCM_SGL: {
                struct gcm_key_data *g = kalloc(it, "gcmkey", sizeof *g, 64, 0);
                void *fn = it->keylen == 16 ? (void *) m->gcm128_pre
                           : it->keylen == 24 ? (void *) m->gcm192_pre
                                               : (void *) m->gcm256_pre;
                mcall("gcm_pre", fn, 2, (uint64_t) k->ckey, (uint64_t) g);
                k->enc = k->dec = g;
                break;
        }
        case IMB_CIPHER_SM4_GCM: {
                struct gcm_key_data *g = kalloc(it, "sm4gcmkey", sizeof *g, 64, 0);
                mcall("imb_sm4_gcm_pre", (void *) imb_sm4_gcm_pre, 3, (uint64_t) m, (uint64_t) k->ckey,
                      (uint64_t) g);
                k->enc = k->dec = g;
                break;
        }
        case IMB_CIPHER_DES:
        case IMB_CIPHER_DOCSIS_DES: {
                uint64_t *s = kalloc(it, "deskey", IMB_DES_KEY_SCHED_SIZE, 8, 0);
                mcall("des_key_sched", (void *) m->des_key_sched, 2, (uint64_t) s, (uint64_t) k->ckey);
                k->enc = k->dec = s;
                break;
        }
        case IMB_CIPHER_DES3: {
                const void **pp = galloc(it, "des3ptrs", 3 * sizeof(void *), 8);
                for (int i = 0; i < 3; i++) {
                        uint64_t *s = guard_alloc(it->slot, "des3key", IMB_DES_KEY_SCHED_SIZE, 8,
                                                  i == 0 ? it->pl : PL_PLAIN);
                        mcall("des_key_sched", (void *) m->des_key_sched, 2, (uint64_t) s,
                              (uint64_t) (k->ckey + 8 * i));
                        pp[i] = s;
                        if (it->k.nobjs < (int) ARRAY_SZ(it->k.objs)) {
                                it->k.objs[it->k.nobjs].p = s;
                                it->k.objs[it->k.nobjs].n = IMB_DES_KEY_SCHED_SIZE;
                                it->k.objs[it->k.nobjs].cls = 0;
                                it->k.nobjs++;
                        }
                }
                k->enc = k->dec = pp;
                break;
        }
        case IMB_CIPHER_CHACHA20:
        case IMB_CIPHER_CHACHA20_POLY1305:
        case IMB_CIPHER_CHACHA20_POLY1305_SGL:
        case IMB_CIPHER_SNOW_V:
        case IMB_CIPHER_SNOW_V_AEAD:
        case IMB_CIPHER_ZUC_EEA3: {
                uint8_t *r = kalloc(it, "rawkey", it->keylen, 1, 0);
                memcpy(r, k->ckey, it->keylen);
                k->enc = k->dec = r;
                break;
        }
        case IMB_CIPHER_SNOW3G_UEA2_BITLEN: {
                size_t sz = (size_t) mcall("snow3g_key_sched_size", (void *) m->snow3g_key_sched_size, 0);
                void *s = kalloc(it, "snow3gkey", sz, 16, 0);
                mcall("snow3g_init_key_sched", (void *) m->snow3g_init_key_sched, 2, (uint64_t) k->ckey,
                      (uint64_t) s);
                k->enc = k->dec = s;
                break;
        }
        case IMB_CIPHER_KASUMI_UEA1_BITLEN: {
                size_t sz = (size_t) mcall("kasumi_key_sched_size", (void *) m->kasumi_key_sched_size, 0);
                void *s = kalloc(it, "kasumikey", sz, 16, 0);
                mcall("kasumi_init_f8_key_sched", (void *) m->kasumi_init_f8_key_sched, 2,
                      (uint64_t) k->ckey, (uint64_t) s);
                k->enc = k->dec = s;
                break;
        }
        case IMB_CIPHER_SM4_ECB:
        case IMB_CIPHER_SM4_CBC:
        case IMB_CIPHER_SM4_CNTR: {
                uint32_t *e = kalloc(it, "sm4enc", 128, 16, 0), *d = kalloc(it, "sm4dec", 128, 16, 0);
                mcall("sm4_keyexp", (void *) m->sm4_keyexp, 3, (uint64_t) k->ckey, (uint64_t) e,
                      (uint64_t) d);
                k->enc = e;
                k->dec = d;
                break;
        }
        default:
                k->enc = k->dec = NULL;
        }
}

static size_t
hmac_state_size(IMB_HASH_ALG h)
{
        switch (h) {
        case IMB_AUTH_HMAC_SHA_1:
                return 20;
        case IMB_AUTH_HMAC_SHA_224:
        case IMB_AUTH_HMAC_SHA_256:
        case IMB_AUTH_HMAC_SM3:
                return 32;
        case IMB_AUTH_HMAC_SHA_384:
        case IMB_AUTH_HMAC_SHA_512:
                return 64;
        case IMB_AUTH_MD5:
                return 16;
        default:
                return 0;
        }
}

static void
prep_hash_keys(struct item *it, struct mmgr *km)
{
        IMB_MGR *m = km->m;
        struct keymat *k = &it->k;
        switch (it->hash) {
        case IMB_AUTH_HMAC_SHA_1:
        case IMB_AUTH_HMAC_SHA_224:
        case IMB_AUTH_HMAC_SHA_256:
        case IMB_AUTH_HMAC_SHA_384:
        case IMB_AUTH_HMAC_SHA_512:
        case IMB_AUTH_MD5:
        case IMB_AUTH_HMAC_SM3: {
                size_t sz = hmac_state_size(it->hash);
                uint8_t ip[64], op[64];
                mcall("imb_hmac_ipad_opad", (void *) imb_hmac_ipad_opad, 6, (uint64_t) m,
                      (uint64_t) it->hash, (uint64_t) k->akey, (uint64_t) k->akey_len, (uint64_t) ip,
                      (uint64_t) op);
                k->a1 = kalloc(it, "ipad", sz, 4, 1);
                k->a2 = kalloc(it, "opad", sz, 4, 1);
                memcpy(k->a1, ip, sz);
                memcpy(k->a2, op, sz);
                break;
        }
        case IMB_AUTH_AES_XCBC: {
                DECLARE_ALIGNED(uint8_t k1[176], 16);
                DECLARE_ALIGNED(uint8_t k2[16], 16);
                DECLARE_ALIGNED(uint8_t k3[16], 16);
                mcall("xcbc_keyexp", (void *) m->xcbc_keyexp, 4, (uint64_t) k->akey, (uint64_t) k1,
                      (uint64_t) k2, (uint64_t) k3);
                k->a1 = kalloc(it, "xcbc_k1", 176, 16, 1);
                k->a2 = kalloc(it, "xcbc_k2", 16, 16, 1);
                k->a3 = kalloc(it, "xcbc_k3", 16, 16, 1);
                memcpy(k->a1, k1, 176);
                memcpy(k->a2, k2, 16);
                memcpy(k->a3, k3, 16);
                break;
        }
        case IMB_AUTH_AES_CMAC:
        case IMB_AUTH_AES_CMAC_BITLEN:
        case IMB_AUTH_AES_CMAC_256: {
                int k256 = it->hash == IMB_AUTH_AES_CMAC_256;
                size_t sz = k256 ? 240 : 176;
                DECLARE_ALIGNED(uint8_t e[240], 16);
                DECLARE_ALIGNED(uint8_t d[240], 16);
                DECLARE_ALIGNED(uint8_t s1[16], 16);
                DECLARE_ALIGNED(uint8_t s2[16], 16);
                mcall("keyexp", k256 ? (void *) m->keyexp_256 : (void *) m->keyexp_128, 3,
                      (uint64_t) k->akey, (uint64_t) e, (uint64_t) d);
                mcall("cmac_subkey_gen", k256 ? (void *) m->cmac_subkey_gen_256 : (void *) m->cmac_subkey_gen_128,
                      3, (uint64_t) e, (uint64_t) s1, (uint64_t) s2);
                k->a1 = kalloc(it, "cmac_key", sz, 16, 1);
                k->a2 = kalloc(it, "cmac_sk1", 16, 16, 1);
                k->a3 = kalloc(it, "cmac_sk2", 16, 16, 1);
                memcpy(k->a1, e, sz);
                memcpy(k->a2, s1, 16);
                memcpy(k->a3, s2, 16);
                break;
        }
        case IMB_AUTH_AES_GMAC_128:
        case IMB_AUTH_AES_GMAC_192:
        case IMB_AUTH_AES_GMAC_256: {
                struct gcm_key_data *g = kalloc(it, "gmackey", sizeof *g, 64, 1);
                void *fn = it->hash == IMB_AUTH_AES_GMAC_128   ? (void *) m->gcm128_pre
                           : it->hash == IMB_AUTH_AES_GMAC_192 ? (void *) m->gcm192_pre
                                                               : (void *) m->gcm256_pre;
                mcall("gcm_pre", fn, 2, (uint64_t) k->akey, (uint64_t) g);
                k->a1 = g;
                break;
        }
        case IMB_AUTH_GHASH: {
                struct gcm_key_data *g = kalloc(it, "ghashkey", sizeof *g, 64, 1);
                mcall("ghash_pre", (void *) m->ghash_pre, 2, (uint64_t) k->akey, (uint64_t) g);
                k->a1 = g;
                break;
        }
        case IMB_AUTH_POLY1305:
        case IMB_AUTH_ZUC_EIA3_BITLEN:
        case IMB_AUTH_ZUC256_EIA3_BITLEN: {
                size_t sz = it->hash == IMB_AUTH_ZUC_EIA3_BITLEN ? 16 : 32;
                k->a1 = kalloc(it, "authkey", sz, 1, 1);
                memcpy(k->a1, k->akey, sz);
                break;
        }
        case IMB_AUTH_SNOW3G_UIA2_BITLEN: {
                size_t sz = (size_t) mcall("snow3g_key_sched_size", (void *) m->snow3g_key_sched_size, 0);
                k->a1 = kalloc(it, "snow3gakey", sz, 16, 1);
                mcall("snow3g_init_key_sched", (void *) m->snow3g_init_key_sched, 2, (uint64_t) k->akey,
                      (uint64_t) k->a1);
                break;
        }
        case IMB_AUTH_KASUMI_UIA1: {
                size_t sz = (size_t) mcall("kasumi_key_sched_size", (void *) m->kasumi_key_sched_size, 0);
                k->a1 = kalloc(it, "kasumiakey", sz, 16, 1);
                mcall("kasumi_init_f9_key_sched", (void *) m->kasumi_init_f9_key_sched, 2,
                      (uint64_t) k->akey, (uint64_t) k->a1);
                break;
        }
        default:
                break;
        }
}

/* ------------------------------------------------------------------ generation */
static uint32_t
pick_len(struct rng *r, uint32_t max)
{
        static const uint32_t classes[] = { 1, 15, 16, 17, 31, 32, 33, 48, 63, 64, 65, 127, 128, 129, 255,
                                            256, 257 };
        uint32_t v;
        switch (rng_below(r, 4)) {
        case 0:
                v = classes[rng_below(r, ARRAY_SZ(classes))];
                break;
        case 1:
                v = 1 + rng_below(r, 80);
                break;
        default:
                v = 1 + rng_below(r, max);
        }
        return v > max ? max : v;
}

static void
iv_class_apply(struct item *it, struct rng *r, int cls)
{
        /* counter-carry classes for 16-byte counter blocks (last 32 bits are the block counter) */
        uint8_t *iv = it->iv;
        if (it->iv_len != 16 || cls == 0)
                return;
        switch (cls) {
        case 1: /* low byte close to wrap */
                iv[15] = (uint8_t) (0xf0 + rng_below(r, 16));
                break;
        case 2: /* low 16 bits all ones-ish */
                iv[14] = 0xff;
                iv[15] = (uint8_t) (0xf8 + rng_below(r, 8));
                break;
        case 3: /* low 24 bits */
                iv[13] = iv[14] = 0xff;
                iv[15] = (uint8_t) (0xfa + rng_below(r, 6));
                break;
        case 4: /* 32-bit wrap */
                iv[12] = iv[13] = iv[14] = 0xff;
                iv[15] = (uint8_t) (0xf0 + rng_below(r, 16));
                break;
        case 5: /* bits above 32 all ones: must not carry into them */
                memset(iv, 0xff, 16);
                iv[15] = (uint8_t) (0xf0 + rng_below(r, 16));
                break;
        default:
                break;
        }
}

int
item_gen(struct item *it, const struct suite *cs, const struct suite *hs, struct rng *r,
         const struct genopt *g, struct mmgr *km)
{
        int tl[40], ntl;
        uint32_t maxlen = g->max_len ? (uint32_t) g->max_len : 320;
        item_release_bufs(it);
        memset(&it->k, 0, sizeof it->k);
        it->aad = it->init_tag = it->src = it->dst = it->tag = it->ivp = it->aivp = it->next_iv = NULL;
        it->slot = g->slot;
        it->pl = g->pl;
        it->cipher = cs ? cs->cipher : IMB_CIPHER_NULL;
        it->keylen = cs ? cs->keylen : 0;
        it->hash = hs ? hs->hash : (cs && cs->aead ? cs->hash : IMB_AUTH_NULL);
        it->dir = g->dir ? (IMB_CIPHER_DIRECTION) g->dir
                         : (rng_below(r, 2) ? IMB_DIR_ENCRYPT : IMB_DIR_DECRYPT);
        it->order = IMB_ORDER_CIPHER_HASH;
        it->c_off = it->c_len = it->c_off_bits = it->c_len_bits = 0;
        it->h_off = it->h_len = it->h_len_bits = 0;
        it->iv_len = it->aiv_len = it->aad_len = it->tag_len = 0;
        it->have_ref = 1;
        it->tag_unspec = 0;
        guard_reset_slot(it->slot);

        rng_bytes(r, it->k.ckey, sizeof it->k.ckey);
        rng_bytes(r, it->k.akey, sizeof it->k.akey);
        rng_bytes(r, it->iv, sizeof it->iv);
        rng_bytes(r, it->aiv, sizeof it->aiv);
        if (g->ckey)
                memcpy(it->k.ckey, g->ckey, 32);
        if (g->akey)
                memcpy(it->k.akey, g->akey, 32);
        if (g->fix_iv) {
                memcpy(it->iv, g->fix_iv, MAX_IV);
                memcpy(it->aiv, g->fix_iv, MAX_IV);
        }

        int aead = cs && cs->aead;
        int chained = cs && hs;
        uint32_t off = g->off >= 0 ? (uint32_t) g->off : rng_below(r, 4);
        uint32_t len;

        /* ---------------- cipher geometry */
        if (cs) {
                unsigned blk = cipher_block(it->cipher);
                uint32_t cmax = cipher_max_len(it->cipher, it->dir);
                if (g->len >= 0)
                        len = (uint32_t) g->len;
                else
                        len = pick_len(r, maxlen);
                if (cipher_is_bitlen(it->cipher)) {
                        uint32_t bits = g->bits ? len : len * 8;
                        if (!g->bits && g->len < 0 && rng_below(r, 2))
                                bits = bits > 8 ? bits - rng_below(r, 8) : bits;
                        if (bits == 0)
                                bits = 1;
                        if (it->cipher == IMB_CIPHER_KASUMI_UEA1_BITLEN && bits > 20000)
                                bits = 20000;
                        it->c_len_bits = bits;
                        it->c_off_bits = 0;
                        it->c_len = (bits + 7) / 8;
                        it->c_off = off;
                        if (it->cipher != IMB_CIPHER_CNTR_BITLEN) {
                                /* SNOW3G/KASUMI: the library applies a byte offset to dst on some
                                 * paths and not on others; the documented common ground is a bit
                                 * offset inside the first byte with dst == src */
                                it->c_off = 0;
                                it->c_off_bits = g->off >= 0 ? (uint32_t) g->off & 7 : rng_below(r, 3) ? 0 : rng_below(r, 8);
                                it->c_len = (it->c_off_bits + bits + 7) / 8;
                        }
                } else {
                        if (blk > 1) {
                                len = (len + blk - 1) / blk * blk;
                                if (len == 0 && it->cipher != IMB_CIPHER_CFB)
                                        len = blk;
                        }
                        if (len == 0 && !cipher_zero_len_ok(it->cipher))
                                len = blk;
                        if (len > cmax)
                                len = cmax / blk * blk;
                        it->c_len = len;
                        it->c_off = off;
                }
                /* IV */
                switch (it->cipher) {
                case IMB_CIPHER_ECB:
                case IMB_CIPHER_SM4_ECB:
                        it->iv_len = 0;
                        break;
                case IMB_CIPHER_CNTR:
                case IMB_CIPHER_SM4_CNTR:
                        it->iv_len = g->iv_len ? (uint32_t) g->iv_len : (rng_below(r, 3) ? 16 : 12);
                        break;
                case IMB_CIPHER_DES:
                case IMB_CIPHER_DES3:
                case IMB_CIPHER_DOCSIS_DES:
                case IMB_CIPHER_KASUMI_UEA1_BITLEN:
                        it->iv_len = 8;
                        break;
                case IMB_CIPHER_CHACHA20:
                case IMB_CIPHER_CHACHA20_POLY1305:
                case IMB_CIPHER_SM4_GCM:
                        it->iv_len = 12;
                        break;
                case IMB_CIPHER_GCM:
                        it->iv_len = g->iv_len ? (uint32_t) g->iv_len
                                               : (rng_below(r, 3) ? 12 : 1 + rng_below(r, 31));
                        break;
                case IMB_CIPHER_CCM:
                        it->iv_len = g->iv_len ? (uint32_t) g->iv_len : 7 + rng_below(r, 7);
                        break;
                case IMB_CIPHER_ZUC_EEA3:
                        it->iv_len = it->keylen == 16 ? 16 : (g->iv_len ? (uint32_t) g->iv_len
                                                                       : (rng_below(r, 2) ? 25 : 23));
                        if (it->keylen == 32 && it->iv_len == 25)
                                for (int i = 17; i < 25; i++)
                                        it->iv[i] &= 0x3f;
                        break;
                default:
                        it->iv_len = 16;
                }
                /* 128-EEA2 defines a 64-bit counter, generic CTR a 32-bit one: classes 4 and 5 (wrap of
                 * the low 32 bits) are only applied where the specification is unambiguous */
                iv_class_apply(it, r, (it->cipher == IMB_CIPHER_CNTR_BITLEN && g->iv_class > 3) ? 3 : g->iv_class);
                if (it->cipher == IMB_CIPHER_CNTR_BITLEN)
                        it->iv[12] &= 0x7f; /* never wrap the low 32 bits (see above) */
        }
        /* ---------------- hash geometry */
        if (hs || aead) {
                ntl = tag_lens(it->hash, tl);
                it->tag_len = g->tag_len ? (uint32_t) g->tag_len : (uint32_t) tl[rng_below(r, (uint32_t) ntl)];
        }
        if (hs && !chained) {
                if (g->len >= 0)
                        len = (uint32_t) g->len;
                else
                        len = pick_len(r, maxlen);
                it->h_off = off;
                if (hash_is_bitlen(it->hash)) {
                        uint32_t bits = g->bits ? len : len * 8;
                        if (!g->bits && g->len < 0 && rng_below(r, 2) && bits > 8)
                                bits -= rng_below(r, 8);
                        if (bits == 0 && it->hash != IMB_AUTH_AES_CMAC_BITLEN)
                                bits = 1;
                        if ((it->hash == IMB_AUTH_ZUC_EIA3_BITLEN || it->hash == IMB_AUTH_ZUC256_EIA3_BITLEN) &&
                            bits > 65504)
                                bits = 65504;
                        it->h_len_bits = bits;
                        it->h_len = (bits + 7) / 8;
                } else {
                        if (it->hash == IMB_AUTH_KASUMI_UIA1 && len < 9)
                                len = 9;
                        if (len > hash_max_len(it->hash))
                                len = hash_max_len(it->hash);
                        if (len == 0 && (it->hash <= IMB_AUTH_HMAC_SHA_512 || it->hash == IMB_AUTH_MD5 ||
                                         it->hash == IMB_AUTH_HMAC_SM3))
                                len = 1;
                        it->h_len = len;
                }
        }
        if (chained) {
                /* generic chaining: in place, hash range covers the cipher range plus a prefix */
                uint32_t hmax = hash_max_len(it->hash);
                if (it->c_off + it->c_len > hmax) {
                        unsigned blk = cipher_block(it->cipher);
                        it->c_len = (hmax - it->c_off) / blk * blk;
                        if (cipher_is_bitlen(it->cipher))
                                it->c_len_bits = it->c_len * 8 - it->c_off_bits;
                }
                if ((it->cipher == IMB_CIPHER_SNOW3G_UEA2_BITLEN) && it->c_off_bits == 0 && (it->c_len_bits & 7)) {
                        /* the bits of the last byte beyond the message are unspecified for SNOW3G with
                         * a zero offset; a hash over that byte would be unspecified too */
                        it->c_len_bits = (it->c_len_bits + 7) & ~7u;
                }
                it->h_off = 0;
                it->h_len = it->c_off + it->c_len;
                if (it->hash == IMB_AUTH_KASUMI_UIA1 && it->h_len < 9)
                        it->h_len = 9;
                if (hash_is_bitlen(it->hash))
                        it->h_len_bits = it->h_len * 8;
                it->order = rng_below(r, 2) ? IMB_ORDER_CIPHER_HASH : IMB_ORDER_HASH_CIPHER;
        }
        /* ---------------- AEAD specifics */
        if (aead) {
                switch (it->cipher) {
                case IMB_CIPHER_GCM:
                case IMB_CIPHER_SM4_GCM:
                case IMB_CIPHER_CHACHA20_POLY1305:
                case IMB_CIPHER_SNOW_V_AEAD:
                        it->aad_len = g->aad_len >= 0 ? (uint32_t) g->aad_len
                                                      : (rng_below(r, 4) ? rng_below(r, 40) : rng_below(r, 140));
                        it->h_off = it->c_off;
                        it->h_len = it->c_len;
                        break;
                case IMB_CIPHER_CCM:
                        it->aad_len = g->aad_len >= 0 ? (uint32_t) g->aad_len : rng_below(r, 47);
                        it->h_off = it->c_off;
                        it->h_len = it->c_len;
                        it->order = it->dir == IMB_DIR_ENCRYPT ? IMB_ORDER_HASH_CIPHER
                                                               : IMB_ORDER_CIPHER_HASH;
                        break;
                case IMB_CIPHER_DOCSIS_SEC_BPI: {
                        /* Ethernet frame: hash (CRC) over [h_off, h_off+h_len), CRC stored right
                         * after it, cipher starts >= 12 bytes into the frame and runs to the end of
                         * the CRC */
                        uint32_t frame = it->c_len < 14 ? 14 + rng_below(r, 50) : it->c_len;
                        if (g->len >= 0)
                                frame = (uint32_t) g->len < 14 ? 14 : (uint32_t) g->len;
                        it->h_off = off;
                        it->h_len = frame;
                        uint32_t coff_in = 12 + rng_below(r, frame - 12 + 1);
                        if (rng_below(r, 3) == 0)
                                coff_in = 12;
                        it->c_off = it->h_off + coff_in;
                        it->c_len = frame + 4 - coff_in;
                        it->order = it->dir == IMB_DIR_ENCRYPT ? IMB_ORDER_HASH_CIPHER
                                                               : IMB_ORDER_CIPHER_HASH;
                        it->tag_len = 4;
                        it->tag_unspec = 0;
                        if (g->len < 0 || g->len >= 14) {
                                unsigned v = rng_below(r, 16);
                                if (v == 0) {
                                        /* CRC switched off (msg_len_to_hash = 0): plain DOCSIS-BPI ciphering through the combined
                                         * suite; the tag buffer is then not specified */
                                        it->h_len = 0;
                                        it->tag_unspec = 1;
                                } else if (v == 1)
                                        it->c_len = 0; /* CRC only, nothing ciphered */
                        }
                        break;
                }
                case IMB_CIPHER_PON_AES_CNTR: {
                        /* XGEM frame: 8-byte header (PLI = payload length in the 14 top bits), payload padded to a
                         * multiple of 4 (sometimes with extra padding words); BIP over the whole frame, AES-CTR over
                         * the payload or not at all (msg_len_to_cipher = 0) */
                        uint32_t pli = g->len >= 0 ? (uint32_t) g->len : (rng_below(r, 5) == 0 ? rng_below(r, 14) : it->c_len);
                        if (pli > 16380)
                                pli = 16380;
                        uint32_t pay = (pli + 3) & ~3u;
                        if (rng_below(r, 4) == 0 && pay + 8 <= 16380)
                                pay += 4 * (1 + rng_below(r, 2));
                        it->pon_pli = pli;
                        it->h_off = 0;
                        it->h_len = 8 + pay;
                        it->c_off = 8;
                        it->c_len = (pay == 0 || rng_below(r, 6) == 0) ? 0 : pay;
                        it->iv_len = 16;
                        it->tag_len = 8;
                        it->order = rng_below(r, 2) ? IMB_ORDER_CIPHER_HASH : IMB_ORDER_HASH_CIPHER;
                        break;
                }
                default:
                        break;
                }
        }
        /* ---------------- auth IVs / misc */
        switch (it->hash) {
        case IMB_AUTH_AES_GMAC_128:
        case IMB_AUTH_AES_GMAC_192:
        case IMB_AUTH_AES_GMAC_256:
                it->aiv_len = g->iv_len ? (uint32_t) g->iv_len : (rng_below(r, 3) ? 12 : 1 + rng_below(r, 31));
                break;
        case IMB_AUTH_ZUC_EIA3_BITLEN:
        case IMB_AUTH_SNOW3G_UIA2_BITLEN:
                it->aiv_len = 16;
                break;
        case IMB_AUTH_ZUC256_EIA3_BITLEN:
                it->aiv_len = g->iv_len ? (uint32_t) g->iv_len : (rng_below(r, 2) ? 25 : 23);
                if (it->aiv_len == 25)
                        for (int i = 17; i < 25; i++)
                                it->aiv[i] &= 0x3f;
                break;
        default:
                break;
        }
        switch (it->hash) {
        case IMB_AUTH_HMAC_SHA_1:
        case IMB_AUTH_HMAC_SHA_224:
        case IMB_AUTH_HMAC_SHA_256:
        case IMB_AUTH_MD5:
        case IMB_AUTH_HMAC_SM3:
                it->k.akey_len = 1 + rng_below(r, rng_below(r, 4) ? 64 : (it->hash == IMB_AUTH_MD5 ? 64 : 150));
                break;
        case IMB_AUTH_HMAC_SHA_384:
        case IMB_AUTH_HMAC_SHA_512:
                it->k.akey_len = 1 + rng_below(r, rng_below(r, 4) ? 128 : 160);
                break;
        case IMB_AUTH_AES_CMAC_256:
        case IMB_AUTH_AES_GMAC_256:
        case IMB_AUTH_POLY1305:
        case IMB_AUTH_ZUC256_EIA3_BITLEN:
                it->k.akey_len = 32;
                break;
        case IMB_AUTH_AES_GMAC_192:
                it->k.akey_len = 24;
                break;
        default:
                it->k.akey_len = 16;
        }

        /* ---------------- buffers */
        uint32_t end_c = it->c_off + it->c_len, end_h = it->h_off + it->h_len;
        it->buf_len = end_c > end_h ? end_c : end_h;
        if (aead && it->cipher == IMB_CIPHER_DOCSIS_SEC_BPI) {
                it->buf_len = it->h_off + it->h_len + 4;
                if (it->buf_len < end_c)
                        it->buf_len = end_c;
        }
        if (it->cipher == IMB_CIPHER_PON_AES_CNTR)
                it->buf_len = it->h_len;
        if (g->inplace >= 0)
                it->inplace = g->inplace;
        else
                it->inplace = (int) rng_below(r, 2);
        if (chained || (aead && it->cipher == IMB_CIPHER_DOCSIS_SEC_BPI) ||
            it->cipher == IMB_CIPHER_CBCS_1_9 || it->cipher == IMB_CIPHER_PON_AES_CNTR ||
            ((it->cipher == IMB_CIPHER_SNOW3G_UEA2_BITLEN || it->cipher == IMB_CIPHER_KASUMI_UEA1_BITLEN) &&
             it->c_off_bits))
                it->inplace = 1;
        it->dst_len = it->c_len;
        it->src_orig = malloc(it->buf_len + 1);
        it->exp_src = malloc(it->buf_len + 1);
        it->exp_dst = malloc(it->dst_len + 64);
        rng_bytes(r, it->src_orig, it->buf_len);
        if (it->cipher == IMB_CIPHER_PON_AES_CNTR) {
                it->src_orig[0] = (uint8_t) (it->pon_pli >> 6);
                it->src_orig[1] = (uint8_t) ((it->pon_pli << 2) | (it->src_orig[1] & 3));
        }
        it->src = galloc(it, "src", it->buf_len, 1);
        memcpy(it->src, it->src_orig, it->buf_len);
        if (cs) {
                if (it->inplace)
                        it->dst = it->src + it->c_off;
                else {
                        it->dst = galloc(it, "dst", it->dst_len, 1);
                        rng_bytes(r, it->dst, it->dst_len);
                        memcpy(it->exp_dst, it->dst, it->dst_len);
                }
        }
        if (it->iv_len) {
                it->ivp = galloc(it, "iv", it->iv_len, 1);
                memcpy(it->ivp, it->iv, it->iv_len);
        }
        if (it->aiv_len) {
                it->aivp = galloc(it, "authiv", it->aiv_len, 1);
                memcpy(it->aivp, it->aiv, it->aiv_len);
        }
        if (it->tag_len) {
                it->tag = galloc(it, "tag", it->tag_len, 1);
                rng_bytes(r, it->tag, it->tag_len);
        }
        if (it->aad_len) {
                it->aad = galloc(it, "aad", it->aad_len, 1);
                rng_bytes(r, it->aad, it->aad_len);
        }
        if (it->hash == IMB_AUTH_GHASH) {
                it->init_tag = galloc(it, "inittag", it->tag_len, 1);
                rng_bytes(r, it->init_tag, it->tag_len);
        }
        if (it->cipher == IMB_CIPHER_CBCS_1_9) {
                it->next_iv = galloc(it, "nextiv", 16, 1);
                rng_bytes(r, it->next_iv, 16);
        }
        if (cs)
                prep_cipher_keys(it, km);
        if (hs || aead)
                prep_hash_keys(it, km);
        return 0;
}

/* ------------------------------------------------------------------ job descriptor */
void
item_fill_job(const struct item *it, IMB_JOB *job)
{
        const struct keymat *k = &it->k;
        memset(job, 0, sizeof *job);
        job->cipher_mode = it->cipher;
        job->cipher_direction = it->dir;
        job->hash_alg = it->hash;
        job->chain_order = it->order;
        job->key_len_in_bytes = it->keylen;
        job->enc_keys = k->enc;
        job->dec_keys = k->dec;
        job->src = it->src;
        job->dst = it->dst;
        job->iv = it->ivp;
        job->iv_len_in_bytes = it->iv_len;
        job->auth_tag_output = it->tag;
        job->auth_tag_output_len_in_bytes = it->tag_len;
        job->user_data = (void *) it;
        if (cipher_is_bitlen(it->cipher)) {
                job->cipher_start_src_offset_in_bits = (uint64_t) it->c_off * 8 + it->c_off_bits;
                job->msg_len_to_cipher_in_bits = it->c_len_bits;
                if (it->cipher == IMB_CIPHER_CNTR_BITLEN)
                        job->cipher_start_src_offset_in_bytes = it->c_off;
        } else {
                job->cipher_start_src_offset_in_bytes = it->c_off;
                job->msg_len_to_cipher_in_bytes = it->c_len;
        }
        job->hash_start_src_offset_in_bytes = it->h_off;
        if (hash_is_bitlen(it->hash))
                job->msg_len_to_hash_in_bits = it->h_len_bits;
        else
                job->msg_len_to_hash_in_bytes = it->h_len;
        switch (it->hash) {
        case IMB_AUTH_HMAC_SHA_1:
        case IMB_AUTH_HMAC_SHA_224:
        case IMB_AUTH_HMAC_SHA_256:
        case IMB_AUTH_HMAC_SHA_384:
        case IMB_AUTH_HMAC_SHA_512:
        case IMB_AUTH_MD5:
        case IMB_AUTH_HMAC_SM3:
                job->u.HMAC._hashed_auth_key_xor_ipad = k->a1;
                job->u.HMAC._hashed_auth_key_xor_opad = k->a2;
                break;
        case IMB_AUTH_AES_XCBC:
                job->u.XCBC._k1_expanded = k->a1;
                job->u.XCBC._k2 = k->a2;
                job->u.XCBC._k3 = k->a3;
                break;
        case IMB_AUTH_AES_CMAC:
        case IMB_AUTH_AES_CMAC_BITLEN:
        case IMB_AUTH_AES_CMAC_256:
                job->u.CMAC._key_expanded = k->a1;
                job->u.CMAC._skey1 = k->a2;
                job->u.CMAC._skey2 = k->a3;
                break;
        case IMB_AUTH_AES_GMAC:
        case IMB_AUTH_SM4_GCM:
                job->u.GCM.aad = it->aad;
                job->u.GCM.aad_len_in_bytes = it->aad_len;
                break;
        case IMB_AUTH_AES_CCM:
                job->u.CCM.aad = it->aad;
                job->u.CCM.aad_len_in_bytes = it->aad_len;
                break;
        case IMB_AUTH_CHACHA20_POLY1305:
                job->u.CHACHA20_POLY1305.aad = it->aad;
                job->u.CHACHA20_POLY1305.aad_len_in_bytes = it->aad_len;
                break;
        case IMB_AUTH_SNOW_V_AEAD:
                job->u.SNOW_V_AEAD.aad = it->aad;
                job->u.SNOW_V_AEAD.aad_len_in_bytes = it->aad_len;
                break;
        case IMB_AUTH_AES_GMAC_128:
        case IMB_AUTH_AES_GMAC_192:
        case IMB_AUTH_AES_GMAC_256:
                job->u.GMAC._key = k->a1;
                job->u.GMAC._iv = it->aivp;
                job->u.GMAC.iv_len_in_bytes = it->aiv_len;
                break;
        case IMB_AUTH_GHASH:
                job->u.GHASH._key = k->a1;
                job->u.GHASH._init_tag = it->init_tag;
                break;
        case IMB_AUTH_POLY1305:
                job->u.POLY1305._key = k->a1;
                break;
        case IMB_AUTH_ZUC_EIA3_BITLEN:
                job->u.ZUC_EIA3._key = k->a1;
                job->u.ZUC_EIA3._iv = it->aivp;
                break;
        case IMB_AUTH_ZUC256_EIA3_BITLEN:
                job->u.ZUC_EIA3._key = k->a1;
                if (it->aiv_len == 23)
                        job->u.ZUC_EIA3._iv23 = it->aivp;
                else
                        job->u.ZUC_EIA3._iv = it->aivp;
                break;
        case IMB_AUTH_SNOW3G_UIA2_BITLEN:
                job->u.SNOW3G_UIA2._key = k->a1;
                job->u.SNOW3G_UIA2._iv = it->aivp;
                break;
        case IMB_AUTH_KASUMI_UIA1:
                job->u.KASUMI_UIA1._key = k->a1;
                break;
        default:
                break;
        }
        if (it->cipher == IMB_CIPHER_CBCS_1_9)
                job->cipher_fields.CBCS.next_iv = it->next_iv;
        if (it->cipher == IMB_CIPHER_CUSTOM)
                job->cipher_func = imbv_custom_cipher;
        if (it->hash == IMB_AUTH_CUSTOM)
                job->hash_func = imbv_custom_hash;
}

/* ------------------------------------------------------------------ reference: ciphers */
static void
xor_into(uint8_t *o, const uint8_t *a, const uint8_t *b, size_t n)
{
        for (size_t i = 0; i < n; i++)
                o[i] = a[i] ^ b[i];
}

static void
ctr_ref(ref_blk_fn enc, const void *ctx, const uint8_t *iv, uint32_t iv_len, const uint8_t *in,
        uint8_t *out, size_t len)
{
        uint8_t cb[16], ks[16];
        if (iv_len == 12) {
                memcpy(cb, iv, 12);
                cb[12] = cb[13] = cb[14] = 0;
                cb[15] = 1;
        } else
                memcpy(cb, iv, 16);
        for (size_t o = 0; o < len; o += 16) {
                size_t n = len - o < 16 ? len - o : 16;
                enc(ctx, cb, ks);
                xor_into(out + o, in + o, ks, n);
                uint32_t c = ((uint32_t) cb[12] << 24) | ((uint32_t) cb[13] << 16) |
                             ((uint32_t) cb[14] << 8) | cb[15];
                c++;
                cb[12] = (uint8_t) (c >> 24);
                cb[13] = (uint8_t) (c >> 16);
                cb[14] = (uint8_t) (c >> 8);
                cb[15] = (uint8_t) c;
        }
}

typedef void (*blk8_fn)(const void *ctx, const uint8_t in[8], uint8_t out[8]);
struct des3ctx {
        const uint8_t *k;
};
static void
des3_enc(const void *ctx, const uint8_t in[8], uint8_t out[8])
{
        const uint8_t *k = ctx;
        uint8_t a[8], b[8];
        ref_des_enc(k, in, a);
        ref_des_dec(k + 8, a, b);
        ref_des_enc(k + 16, b, out);
}
static void
des3_dec(const void *ctx, const uint8_t in[8], uint8_t out[8])
{
        const uint8_t *k = ctx;
        uint8_t a[8], b[8];
        ref_des_dec(k + 16, in, a);
        ref_des_enc(k + 8, a, b);
        ref_des_dec(k, b, out);
}

/* generic CBC with optional DOCSIS residual termination; bs = 8 or 16 */
static void
cbc_ref(void (*enc)(const void *, const uint8_t *, uint8_t *),
        void (*dec)(const void *, const uint8_t *, uint8_t *), const void *ctx, unsigned bs,
        int decrypt, const uint8_t *iv, const uint8_t *in, uint8_t *out, size_t len, int docsis)
{
        uint8_t prev[16], t[16], ks[16];
        size_t full = len / bs * bs;
        memcpy(prev, iv, bs);
        for (size_t o = 0; o < full; o += bs) {
                if (!decrypt) {
                        xor_into(t, in + o, prev, bs);
                        enc(ctx, t, out + o);
                        memcpy(prev, out + o, bs);
                } else {
                        uint8_t c[16];
                        memcpy(c, in + o, bs);
                        dec(ctx, c, t);
                        xor_into(out + o, t, prev, bs);
                        memcpy(prev, c, bs);
                }
        }
        if (docsis && len > full) {
                /* residual termination: CFB with the last ciphertext block (or the IV) */
                enc(ctx, prev, ks);
                xor_into(out + full, in + full, ks, len - full);
        }
}

static void
aes_e(const void *c, const uint8_t *i, uint8_t *o)
{
        ref_aes_enc(c, i, o);
}
static void
aes_d(const void *c, const uint8_t *i, uint8_t *o)
{
        ref_aes_dec(c, i, o);
}
static void
des_e(const void *c, const uint8_t *i, uint8_t *o)
{
        ref_des_enc(c, i, o);
}
static void
des_d(const void *c, const uint8_t *i, uint8_t *o)
{
        ref_des_dec(c, i, o);
}
static void
sm4_e(const void *c, const uint8_t *i, uint8_t *o)
{
        ref_sm4_enc(c, i, o);
}
static void
sm4_d(const void *c, const uint8_t *i, uint8_t *o)
{
        ref_sm4_dec(c, i, o);
}

/* cipher stage: in -> out, len bytes (for bit modes: c_len_bits bits, tail bits from 'outprev') */
static void
cipher_ref(struct item *it, const uint8_t *in, uint8_t *out)
{
        struct ref_aes_key ak;
        const int dec = it->dir == IMB_DIR_DECRYPT;
        size_t len = it->c_len;
        ak.keylen = (int) it->keylen;
        memcpy(ak.key, it->k.ckey, 32);
        switch (it->cipher) {
        case IMB_CIPHER_CBC:
                cbc_ref(aes_e, aes_d, &ak, 16, dec, it->iv, in, out, len, 0);
                break;
        case IMB_CIPHER_DOCSIS_SEC_BPI:
                cbc_ref(aes_e, aes_d, &ak, 16, dec, it->iv, in, out, len, 1);
                break;
        case IMB_CIPHER_SM4_CBC:
                cbc_ref(sm4_e, sm4_d, it->k.ckey, 16, dec, it->iv, in, out, len, 0);
                break;
        case IMB_CIPHER_DES:
                cbc_ref(des_e, des_d, it->k.ckey, 8, dec, it->iv, in, out, len, 0);
                break;
        case IMB_CIPHER_DOCSIS_DES:
                cbc_ref(des_e, des_d, it->k.ckey, 8, dec, it->iv, in, out, len, 1);
                break;
        case IMB_CIPHER_DES3:
                cbc_ref(des3_enc, des3_dec, it->k.ckey, 8, dec, it->iv, in, out, len, 0);
                break;
        case IMB_CIPHER_ECB:
                for (size_t o = 0; o < len; o += 16)
                        (dec ? ref_aes_dec : ref_aes_enc)(&ak, in + o, out + o);
                break;
        case IMB_CIPHER_SM4_ECB:
                for (size_t o = 0; o < len; o += 16)
                        (dec ? ref_sm4_dec : ref_sm4_enc)(it->k.ckey, in + o, out + o);
                break;
        case IMB_CIPHER_CNTR:
                ctr_ref(ref_aes_enc, &ak, it->iv, it->iv_len, in, out, len);
                break;
        case IMB_CIPHER_SM4_CNTR:
                ctr_ref(ref_sm4_enc, it->k.ckey, it->iv, it->iv_len, in, out, len);
                break;
        case IMB_CIPHER_CNTR_BITLEN: {
                uint8_t last_prev = out[len - 1]; /* existing output byte: untouched bits survive */
                ctr_ref(ref_aes_enc, &ak, it->iv, it->iv_len, in, out, len);
                unsigned r = it->c_len_bits & 7;
                if (r) {
                        uint8_t mask = (uint8_t) (0xff << (8 - r));
                        out[len - 1] = (uint8_t) ((out[len - 1] & mask) | (last_prev & ~mask));
                }
                break;
        }
        case IMB_CIPHER_CFB: {
                uint8_t prev[16], ks[16];
                memcpy(prev, it->iv, 16);
                for (size_t o = 0; o < len; o += 16) {
                        size_t n = len - o < 16 ? len - o : 16;
                        uint8_t c[16];
                        ref_aes_enc(&ak, prev, ks);
                        if (dec) {
                                memcpy(c, in + o, n);
                                xor_into(out + o, in + o, ks, n);
                                memcpy(prev, c, n);
                        } else {
                                xor_into(out + o, in + o, ks, n);
                                memcpy(prev, out + o, n);
                        }
                }
                break;
        }
        case IMB_CIPHER_CBCS_1_9: {
                /* pattern 1:9 -- one encrypted block followed by nine clear blocks; CBC chaining
                 * runs over the encrypted blocks only */
                uint8_t prev[16], t[16];
                memcpy(prev, it->iv, 16);
                for (size_t o = 0; o + 16 <= len; o += 16) {
                        if ((o / 16) % 10 == 0) {
                                if (!dec) {
                                        xor_into(t, in + o, prev, 16);
                                        ref_aes_enc(&ak, t, out + o);
                                        memcpy(prev, out + o, 16);
                                } else {
                                        uint8_t c[16];
                                        memcpy(c, in + o, 16);
                                        ref_aes_dec(&ak, c, t);
                                        xor_into(out + o, t, prev, 16);
                                        memcpy(prev, c, 16);
                                }
                        } else if (out != in)
                                memmove(out + o, in + o, 16);
                }
                memcpy(it->exp_next_iv, prev, 16);
                break;
        }
        case IMB_CIPHER_CHACHA20:
                ref_chacha20(it->k.ckey, 1, it->iv, in, out, len); /* RFC 7634 / lib KATs: block counter starts at 1 */
                break;
        case IMB_CIPHER_ZUC_EEA3:
                if (it->keylen == 16)
                        ref_zuc128_eea3(it->k.ckey, it->iv, in, out, len);
                else
                        ref_zuc256_eea3(it->k.ckey, it->iv, it->iv_len, in, out, len);
                break;
        case IMB_CIPHER_SNOW3G_UEA2_BITLEN:
        case IMB_CIPHER_KASUMI_UEA1_BITLEN: {
                /* message = bits [off, off+len) of the buffer, MSB first; all other bits of the
                 * output keep their previous value */
                uint32_t off = it->c_off_bits, nb = it->c_len_bits;
                size_t tl = (nb + 7) / 8;
                uint8_t *t = calloc(1, tl + 2), *o = calloc(1, tl + 2);
                for (uint32_t i = 0; i < nb; i++) {
                        uint32_t sb = off + i;
                        if (in[sb >> 3] & (0x80 >> (sb & 7)))
                                t[i >> 3] |= (uint8_t) (0x80 >> (i & 7));
                }
                if (it->cipher == IMB_CIPHER_SNOW3G_UEA2_BITLEN)
                        ref_snow3g_f8(it->k.ckey, it->iv, t, o, nb);
                else
                        ref_kasumi_f8(it->k.ckey, it->iv, t, o, nb);
                for (uint32_t i = 0; i < nb; i++) {
                        uint32_t db = off + i;
                        uint8_t m = (uint8_t) (0x80 >> (db & 7));
                        if (o[i >> 3] & (0x80 >> (i & 7)))
                                out[db >> 3] |= m;
                        else
                                out[db >> 3] &= (uint8_t) ~m;
                }
                free(t);
                free(o);
                break;
        }
        case IMB_CIPHER_SNOW_V:
                ref_snowv(it->k.ckey, it->iv, in, out, len);
                break;
        case IMB_CIPHER_CUSTOM:
                for (size_t i = 0; i < len; i++)
                        out[i] = in[i] ^ 0xA5;
                break;
        default:
                it->have_ref = 0;
                if (out != in)
                        memmove(out, in, len);
        }
}

/* custom callbacks used as dispatch probes (C06) */
int g_custom_trace[8];
int g_custom_ntrace;
__thread int g_custom_fail; /* bit 0: the cipher callback reports failure, bit 1: the hash callback does */
int
imbv_custom_cipher(IMB_JOB *job)
{
        const uint8_t *in = job->src + job->cipher_start_src_offset_in_bytes;
        if (g_custom_ntrace < 8)
                g_custom_trace[g_custom_ntrace++] = 1;
        for (uint64_t i = 0; i < job->msg_len_to_cipher_in_bytes; i++)
                job->dst[i] = in[i] ^ 0xA5;
        return g_custom_fail & 1;
}
int
imbv_custom_hash(IMB_JOB *job)
{
        const uint8_t *in = job->src + job->hash_start_src_offset_in_bytes;
        uint32_t sum = 0x12345678;
        if (g_custom_ntrace < 8)
                g_custom_trace[g_custom_ntrace++] = 2;
        for (uint64_t i = 0; i < job->msg_len_to_hash_in_bytes; i++)
                sum = sum * 31 + in[i];
        memcpy(job->auth_tag_output, &sum, job->auth_tag_output_len_in_bytes > 4 ? 4 : job->auth_tag_output_len_in_bytes);
        return (g_custom_fail >> 1) & 1;
}

/* ------------------------------------------------------------------ reference: hashes */
static void
hmac_sm3(const uint8_t *key, size_t klen, const uint8_t *msg, size_t len, uint8_t out[32])
{
        uint8_t k[64] = { 0 }, pad[64], inner[32];
        uint8_t *buf = malloc(64 + len + 32);
        if (klen > 64)
                ref_sm3(key, klen, k);
        else
                memcpy(k, key, klen);
        for (int i = 0; i < 64; i++)
                pad[i] = k[i] ^ 0x36;
        memcpy(buf, pad, 64);
        memcpy(buf + 64, msg, len);
        ref_sm3(buf, 64 + len, inner);
        for (int i = 0; i < 64; i++)
                pad[i] = k[i] ^ 0x5c;
        memcpy(buf, pad, 64);
        memcpy(buf + 64, inner, 32);
        ref_sm3(buf, 96, out);
        free(buf);
}

static void
hash_ref(struct item *it, const uint8_t *msg, uint8_t *tag)
{
        uint8_t full[64];
        unsigned int ol = 0;
        size_t len = it->h_len;
        const EVP_MD *md = NULL;
        struct ref_aes_key ak;
        memset(full, 0, sizeof full);
        switch (it->hash) {
        case IMB_AUTH_HMAC_SHA_1:
                md = EVP_sha1();
                break;
        case IMB_AUTH_HMAC_SHA_224:
                md = EVP_sha224();
                break;
        case IMB_AUTH_HMAC_SHA_256:
                md = EVP_sha256();
                break;
        case IMB_AUTH_HMAC_SHA_384:
                md = EVP_sha384();
                break;
        case IMB_AUTH_HMAC_SHA_512:
                md = EVP_sha512();
                break;
        case IMB_AUTH_MD5:
                md = EVP_md5();
                break;
        default:
                break;
        }
        if (md) {
                HMAC(md, it->k.akey, (int) it->k.akey_len, msg, len, full, &ol);
                memcpy(tag, full, it->tag_len);
                return;
        }
        switch (it->hash) {
        case IMB_AUTH_SHA_1:
                SHA1(msg, len, full);
                break;
        case IMB_AUTH_SHA_224:
                SHA224(msg, len, full);
                break;
        case IMB_AUTH_SHA_256:
                SHA256(msg, len, full);
                break;
        case IMB_AUTH_SHA_384:
                SHA384(msg, len, full);
                break;
        case IMB_AUTH_SHA_512:
                SHA512(msg, len, full);
                break;
        case IMB_AUTH_SM3:
                ref_sm3(msg, len, full);
                break;
        case IMB_AUTH_HMAC_SM3:
                hmac_sm3(it->k.akey, it->k.akey_len, msg, len, full);
                break;
        case IMB_AUTH_AES_XCBC:
                ref_xcbc(it->k.akey, msg, len, full, 16);
                break;
        case IMB_AUTH_AES_CMAC:
        case IMB_AUTH_AES_CMAC_BITLEN:
        case IMB_AUTH_AES_CMAC_256:
                ak.keylen = it->hash == IMB_AUTH_AES_CMAC_256 ? 32 : 16;
                memcpy(ak.key, it->k.akey, 32);
                ref_cmac(ref_aes_enc, &ak,
                         msg, it->hash == IMB_AUTH_AES_CMAC_BITLEN ? it->h_len_bits : (uint64_t) len * 8,
                         full, 16);
                break;
        case IMB_AUTH_AES_GMAC_128:
        case IMB_AUTH_AES_GMAC_192:
        case IMB_AUTH_AES_GMAC_256:
                ak.keylen = (int) it->k.akey_len;
                memcpy(ak.key, it->k.akey, 32);
                ref_gcm(ref_aes_enc, &ak, 0, it->aiv, it->aiv_len, msg, len, NULL, NULL, 0, full, 16);
                break;
        case IMB_AUTH_GHASH: {
                uint8_t init[16] = { 0 };
                memcpy(init, it->init_tag, it->tag_len);
                ref_ghash_raw(it->k.akey, init, msg, len, full);
                break;
        }
        case IMB_AUTH_POLY1305:
                ref_poly1305(it->k.akey, msg, len, full);
                break;
        case IMB_AUTH_ZUC_EIA3_BITLEN:
                ref_zuc128_eia3(it->k.akey, it->aiv, msg, it->h_len_bits, full);
                break;
        case IMB_AUTH_ZUC256_EIA3_BITLEN:
                ref_zuc256_eia3(it->k.akey, it->aiv, it->aiv_len, msg, it->h_len_bits, full, it->tag_len);
                break;
        case IMB_AUTH_SNOW3G_UIA2_BITLEN:
                ref_snow3g_f9(it->k.akey, it->aiv, msg, it->h_len_bits, full);
                break;
        case IMB_AUTH_KASUMI_UIA1:
                ref_kasumi_f9(it->k.akey, msg, len, full);
                break;
        case IMB_AUTH_CUSTOM: {
                uint32_t sum = 0x12345678;
                for (size_t i = 0; i < len; i++)
                        sum = sum * 31 + msg[i];
                memcpy(full, &sum, 4);
                break;
        }
        default: {
                const struct ref_crc_params *p = crc_params(it->hash);
                if (p) {
                        uint32_t c = ref_crc(p, msg, len);
                        memcpy(full, &c, 4);
                } else
                        it->have_ref = 0;
        }
        }
        memcpy(tag, full, it->tag_len);
}

/* ------------------------------------------------------------------ expected effect */
void
item_expect(struct item *it)
{
        uint8_t *img = it->exp_src;
        struct ref_aes_key ak;
        const int dec = it->dir == IMB_DIR_DECRYPT;
        memcpy(img, it->src_orig, it->buf_len);
        memset(it->exp_tag, 0, sizeof it->exp_tag);
        it->status_expected = IMB_STATUS_COMPLETED;
        ak.keylen = (int) it->keylen;
        memcpy(ak.key, it->k.ckey, 32);
        uint8_t *cin = img + it->c_off;
        uint8_t *cout = it->inplace ? cin : it->exp_dst;

        switch (it->cipher) {
        case IMB_CIPHER_GCM:
                ref_gcm(ref_aes_enc, &ak, dec, it->iv, it->iv_len, it->aad, it->aad_len, cin, cout,
                        it->c_len, it->exp_tag, it->tag_len);
                return;
        case IMB_CIPHER_SM4_GCM:
                ref_gcm(ref_sm4_enc, it->k.ckey, dec, it->iv, it->iv_len, it->aad, it->aad_len, cin, cout,
                        it->c_len, it->exp_tag, it->tag_len);
                return;
        case IMB_CIPHER_CCM:
                ref_ccm(ref_aes_enc, &ak, dec, it->iv, it->iv_len, it->aad, it->aad_len, cin, cout,
                        it->c_len, it->exp_tag, it->tag_len);
                return;
        case IMB_CIPHER_CHACHA20_POLY1305:
                ref_chacha20_poly1305(dec, it->k.ckey, it->iv, it->aad, it->aad_len, cin, cout, it->c_len,
                                      it->exp_tag);
                return;
        case IMB_CIPHER_SNOW_V_AEAD:
                ref_snowv_aead(dec, it->k.ckey, it->iv, it->aad, it->aad_len, cin, cout, it->c_len,
                               it->exp_tag);
                return;
        default:
                break;
        }
        if (it->cipher == IMB_CIPHER_PON_AES_CNTR && (it->hash != IMB_AUTH_PON_CRC_BIP || it->c_off != 8 || it->h_off != 0)) {
                it->have_ref = 0; /* not an XGEM frame job (only reachable in rejected cells of the suite matrix) */
                return;
        }
        if (it->cipher == IMB_CIPHER_PON_AES_CNTR) {
                uint32_t bip = 0, crc = 0;
                int rc = ref_pon(ref_aes_enc, &ak, dec, it->iv, img, it->buf_len, it->c_len, &bip, &crc);
                if (rc < 0)
                        harness_fail("item: PON geometry rejected by the model (pli %u frame %u cipher %u)", it->pon_pli,
                                     it->buf_len, it->c_len);
                memcpy(it->exp_tag, &bip, 4);
                memcpy(it->exp_tag + 4, &crc, 4);
                it->pon_crc_defined = rc == 1;
                return;
        }
        if (it->cipher == IMB_CIPHER_DOCSIS_SEC_BPI && it->hash == IMB_AUTH_DOCSIS_CRC32) {
                const struct ref_crc_params *p = crc_params(IMB_AUTH_CRC32_ETHERNET_FCS);
                if (!dec) {
                        if (it->h_len >= 14) {
                                uint32_t c = ref_crc(p, img + it->h_off, it->h_len);
                                memcpy(img + it->h_off + it->h_len, &c, 4);
                                memcpy(it->exp_tag, &c, 4);
                        }
                        cipher_ref(it, cin, cout);
                } else {
                        cipher_ref(it, cin, cout);
                        if (it->h_len >= 14) {
                                uint32_t c = ref_crc(p, img + it->h_off, it->h_len);
                                memcpy(it->exp_tag, &c, 4);
                        }
                }
                return;
        }
        int have_c = it->cipher != IMB_CIPHER_NULL, have_h = it->hash != IMB_AUTH_NULL;
        if (have_c && have_h && it->order == IMB_ORDER_HASH_CIPHER) {
                hash_ref(it, img + it->h_off, it->exp_tag);
                cipher_ref(it, cin, cout);
        } else {
                if (have_c)
                        cipher_ref(it, cin, cout);
                if (have_h)
                        hash_ref(it, img + it->h_off, it->exp_tag);
        }
}

/* ------------------------------------------------------------------ description & check */
const char *
item_describe(const struct item *it)
{
        static __thread char b[900];
        snprintf(b, sizeof b,
                 "{\"cipher\":\"%s\",\"keylen\":%u,\"dir\":%d,\"hash\":\"%s\",\"order\":%d,\"c_off\":%u,"
                 "\"c_len\":%u,\"c_off_bits\":%u,\"c_len_bits\":%u,\"h_off\":%u,\"h_len\":%u,\"h_len_bits\":%u,\"iv_len\":%u,"
                 "\"aiv_len\":%u,\"aad_len\":%u,\"tag_len\":%u,\"inplace\":%d,\"place\":%d,\"ckey\":\"%s\","
                 "\"akey_len\":%zu,\"akey\":\"%s\",\"iv\":\"%s\",\"aiv\":\"%s\",\"src_head\":\"%s\"}",
                 cipher_name(it->cipher), it->keylen, it->dir, hash_name(it->hash), it->order, it->c_off,
                 it->c_len, it->c_off_bits, it->c_len_bits, it->h_off, it->h_len, it->h_len_bits, it->iv_len, it->aiv_len,
                 it->aad_len, it->tag_len, it->inplace, it->pl, hexs(it->k.ckey, 32), it->k.akey_len,
                 hexs(it->k.akey, it->k.akey_len > 32 ? 32 : it->k.akey_len), hexs(it->iv, it->iv_len),
                 hexs(it->aiv, it->aiv_len), hexs(it->src_orig, it->buf_len > 48 ? 48 : it->buf_len));
        return b;
}

/* geometry classes that distinguish known corner-case findings from everything else */
static const char *
item_geom_class(const struct item *it)
{
        static __thread char b[64];
        b[0] = 0;
        if (it->cipher == IMB_CIPHER_DOCSIS_SEC_BPI && it->hash == IMB_AUTH_DOCSIS_CRC32) {
                uint32_t rel = it->c_off - it->h_off;
                snprintf(b, sizeof b, "|%s|%s|%s", it->h_len + 4 >= 32768 ? "frame>=32768" : "frame<32768",
                         rel == 12 ? "c12" : (rel + 16 <= it->h_len ? "cmid" : "ctail"),
                         it->c_len < 16 ? "clen<16" : "clen>=16");
        } else if (it->cipher == IMB_CIPHER_PON_AES_CNTR) {
                snprintf(b, sizeof b, "|%s|%s", it->c_len ? "ctr" : "noctr", it->buf_len == 8 ? "hdr-only" : (it->pon_pli <= 4 ? "pli<=4" : "pli>4"));
        } else if (it->c_len > 65534 || it->h_len > 65534)
                snprintf(b, sizeof b, "|len>65534");
        return b;
}

static long
first_diff(const uint8_t *a, const uint8_t *b, size_t n)
{
        for (size_t i = 0; i < n; i++)
                if (a[i] != b[i])
                        return (long) i;
        return -1;
}

/* FNV-1a hash of the bytes of the item's output that the job specifies (destination range, tag): unspecified bits
 * (SNOW3G tail bits with a zero bit offset, the CRC half of a PON tag when PLI <= 4) are left out, so that two runs of
 * the same item can be compared for equality */
uint64_t
item_output_hash(const struct item *it)
{
        uint64_t h = 0xcbf29ce484222325ULL;
        if (it->cipher != IMB_CIPHER_NULL && it->dst_len) {
                const uint8_t *o = it->inplace ? it->src + it->c_off : it->dst;
                uint32_t n = it->dst_len;
                uint8_t last = o[n - 1];
                if (it->cipher == IMB_CIPHER_SNOW3G_UEA2_BITLEN && it->c_off_bits == 0 && (it->c_len_bits & 7))
                        last &= (uint8_t) (0xff << (8 - (it->c_len_bits & 7)));
                for (uint32_t i = 0; i + 1 < n; i++)
                        h = (h ^ o[i]) * 0x100000001b3ULL;
                h = (h ^ last) * 0x100000001b3ULL;
        }
        if (it->tag_len) {
                uint32_t n = (it->cipher == IMB_CIPHER_PON_AES_CNTR && !it->pon_crc_defined) ? 4 : it->tag_len;
                if (it->tag_unspec)
                        n = 0;
                for (uint32_t i = 0; i < n; i++)
                        h = (h ^ it->tag[i]) * 0x100000001b3ULL;
        }
        return h;
}

/* the violation key item_check() would use for a destination (is_tag = 0) or tag (is_tag = 1) mismatch of this
 * item: lets engines that compare recorded expectations themselves (crash engine) report under the same identity */
void
item_mismatch_key(const struct item *it, const char *prop, const char *variant, int is_tag, char *key, size_t n)
{
        const char *sname = it->cipher != IMB_CIPHER_NULL ? cipher_name(it->cipher) : hash_name(it->hash);
        if (is_tag)
                snprintf(key, n, "%s|%s|%s|tag%s", prop, variant, hash_name(it->hash), item_geom_class(it));
        else
                snprintf(key, n, "%s|%s|%s-%u|dir%d|dst%s", prop, variant, sname, it->keylen * 8, it->dir, item_geom_class(it));
}

int
item_check(struct item *it, const IMB_JOB *job, const char *prop, struct mmgr *mm, const char *ctx)
{
        char key[256], det[600];
        int bad = 0;
        const char *v = variant_name(mm ? mm->variant : -1);
        const char *sname = it->cipher != IMB_CIPHER_NULL ? cipher_name(it->cipher) : hash_name(it->hash);
        if (job && job->status != (IMB_STATUS) it->status_expected) {
                snprintf(key, sizeof key, "%s|%s|%s|status|%d", prop, v, sname, job->status);
                snprintf(det, sizeof det, "%s: job status %d, expected %d (hash %s)", ctx, job->status,
                         it->status_expected, hash_name(it->hash));
                ev_violation(prop, key, det, item_describe(it));
                return 1;
        }
        if (!it->have_ref)
                return 0;
        if (it->cipher != IMB_CIPHER_NULL && it->dst_len) {
                const uint8_t *got = it->inplace ? it->src + it->c_off : it->dst;
                const uint8_t *exp = it->inplace ? it->exp_src + it->c_off : it->exp_dst;
                long d = first_diff(got, exp, it->dst_len);
                if (d >= 0 && it->cipher == IMB_CIPHER_SNOW3G_UEA2_BITLEN && it->c_off_bits == 0 &&
                    (it->c_len_bits & 7) && (uint32_t) d == it->dst_len - 1) {
                        /* SNOW3G with a zero bit offset: the documentation does not say what happens
                         * to the bits of the last byte beyond the message; only message bits count */
                        uint8_t mask = (uint8_t) (0xff << (8 - (it->c_len_bits & 7)));
                        if (((got[d] ^ exp[d]) & mask) == 0)
                                d = -1;
                }
                if (d >= 0) {
                        snprintf(key, sizeof key, "%s|%s|%s-%u|dir%d|dst%s", prop, v, sname, it->keylen * 8,
                                 it->dir, item_geom_class(it));
                        snprintf(det, sizeof det,
                                 "%s: destination differs from reference at byte %ld of %u (got %02x expected "
                                 "%02x), len%%16=%u",
                                 ctx, d, it->dst_len, got[d], exp[d], it->dst_len % 16);
                        ev_violation(prop, key, det, item_describe(it));
                        bad++;
                }
        }
        if (it->tag_len) {
                /* PON with PLI <= 4: no CRC is computed; the CRC half of the tag is not specified */
                uint32_t tcmp = (it->cipher == IMB_CIPHER_PON_AES_CNTR && !it->pon_crc_defined) ? 4 : it->tag_len;
                if (it->tag_unspec)
                        tcmp = 0;
                long d = first_diff(it->tag, it->exp_tag, tcmp);
                if (d >= 0) {
                        snprintf(key, sizeof key, "%s|%s|%s|tag%s", prop, v, hash_name(it->hash),
                                 item_geom_class(it));
                        snprintf(det, sizeof det,
                                 "%s: tag differs from reference at byte %ld of %u: got %s expected %s", ctx,
                                 d, it->tag_len, hexs(it->tag, it->tag_len), hexs(it->exp_tag, it->tag_len));
                        ev_violation(prop, key, det, item_describe(it));
                        bad++;
                }
        }
        if (it->cipher == IMB_CIPHER_CBCS_1_9 && memcmp(it->next_iv, it->exp_next_iv, 16)) {
                snprintf(key, sizeof key, "%s|%s|CBCS|next_iv", prop, v);
                snprintf(det, sizeof det, "%s: next_iv differs: got %s expected %s", ctx,
                         hexs(it->next_iv, 16), hexs(it->exp_next_iv, 16));
                ev_violation(prop, key, det, item_describe(it));
                bad++;
        }
        /* source image: unchanged apart from documented writes (in-place output, DOCSIS CRC) */
        {
                long d = first_diff(it->src, it->exp_src, it->buf_len);
                /* in-place destination range already compared above */
                if (d >= 0 && !(it->inplace && it->cipher != IMB_CIPHER_NULL && (uint32_t) d >= it->c_off &&
                                (uint32_t) d < it->c_off + it->dst_len)) {
                        snprintf(key, sizeof key, "C07|%s|%s|src-modified", v, sname);
                        snprintf(det, sizeof det,
                                 "%s: source buffer byte %ld (of %u) changed outside the documented output "
                                 "range: got %02x expected %02x",
                                 ctx, d, it->buf_len, it->src[d], it->exp_src[d]);
                        ev_violation("C07", key, det, item_describe(it));
                        bad++;
                }
        }
        char w[96];
        snprintf(w, sizeof w, "%s|%s", v, sname);
        bad += guard_check_slot(it->slot, w);
        return bad;
}

/* ------------------------------------------------------------------ reference self-tests */
void
refs_selftest_or_die(void)
{
        int bad = 0;
        bad += ref_prim_selftest();
        bad += ref_crc_selftest();
        bad += ref_sm_selftest();
        bad += ref_modes_selftest();
        bad += ref_zuc_selftest();
        bad += ref_3g_selftest();
        bad += ref_snowv_selftest();
        bad += ref_pon_selftest() ? 1 : 0;
        if (bad)
                harness_fail("reference model self-test failed (%d)", bad);
}

void
imbv_hmac_sha1_ref(const uint8_t *key, size_t klen, const uint8_t *msg, size_t len, uint8_t *out12)
{
        uint8_t full[20];
        unsigned int ol = 0;
        HMAC(EVP_sha1(), key, (int) klen, msg, len, full, &ol);
        memcpy(out12, full, 12);
}

/* which algorithm of the item owns the object kind that faulted */
const char *
item_fault_suite(const struct item *it, const char *kind)
{
        static const char *hk[] = { "tag", "authiv", "inittag", "ipad", "opad", "xcbc_k1", "xcbc_k2", "xcbc_k3",
                                    "cmac_key", "cmac_sk1", "cmac_sk2", "gmackey", "ghashkey", "authkey",
                                    "snow3gakey", "kasumiakey" };
        if (it->cipher == IMB_CIPHER_NULL)
                return hash_name(it->hash);
        if (it->hash != IMB_AUTH_NULL)
                for (unsigned i = 0; i < ARRAY_SZ(hk); i++)
                        if (!strcmp(kind, hk[i]))
                                return hash_name(it->hash);
        if (it->hash != IMB_AUTH_NULL && !strcmp(kind, "src") &&
            !(it->cipher == IMB_CIPHER_CHACHA20 || it->cipher == IMB_CIPHER_CHACHA20_POLY1305)) {
                /* a source over-read of a chained job: attribute to the hash when the cipher is not a
                 * known offender (keys stay specific to the real reader as far as can be told) */
                static __thread char b[64];
                snprintf(b, sizeof b, "%s+%s", cipher_name(it->cipher), hash_name(it->hash));
                return b;
        }
        return cipher_name(it->cipher);
}
