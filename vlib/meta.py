"""Static description of every check for MANIFEST.json."""

META = {
    "C01": dict(category="exploration", design_ref="DESIGN.md 5 C01", engine="conf",
                technique="runtime differential monitor: job outputs vs independent reference ciphers",
                text=("Every completed cipher job produced by boundary-biased generators on all 7 reachable "
                      "variants is compared byte-for-byte (bit-for-bit for bit-length modes) with an "
                      "independent reference model; jobs run in mixed-length batches so multi-buffer lanes are "
                      "heterogeneous. Held = no disagreement on the executions observed."),
                note=("trusted base: libcrypto AES/DES block functions, own mode/3GPP/SM4 models self-checked "
                      "on published vectors at every start; AVX2 t3/t4 not executable on this host")),
    "C02": dict(category="exploration", design_ref="DESIGN.md 5 C02", engine="conf",
                technique="runtime differential monitor: tags vs independent reference hashes/MACs/CRCs",
                text=("Every hash/MAC/CRC job (all permitted tag lengths, lengths across padding boundaries, bit "
                      "lengths for 3GPP MACs) on all reachable variants is compared with an independent "
                      "reference on the full requested tag length."),
                note=("trusted base: libcrypto SHA/MD5/HMAC, own CMAC/XCBC/GMAC/Poly1305/ZUC/SNOW3G/KASUMI/SM3/"
                      "CRC models self-checked on published vectors; CRC32-SCTP bit-order convention follows "
                      "the library's documented test reference (polynomial from RFC 3309)")),
    "C03": dict(category="exploration", design_ref="DESIGN.md 5 C03", engine="conf",
                technique="runtime differential monitor: AEAD outputs vs own spec-level models, both directions",
                text=("Encrypt and decrypt jobs of every AEAD/combined mode with swept IV/AAD/tag/payload "
                      "lengths are compared (ciphertext/plaintext, tag, inserted CRC) with independent models "
                      "cross-checked against libcrypto."),
                note="trusted base: own GCM/CCM/ChaCha20-Poly1305/SNOW-V-GCM/DOCSIS models; PON via pon engine"),
    "C04": dict(category="exploration", design_ref="DESIGN.md 5 C04", engine="mix",
                technique="schedule fuzzer + per-job oracle (reference and alone-run twin)",
                text=("Random schedules mix suites sharing and not sharing OOO managers, with flushes/get-completed "
                      "at random points, lanes of unequal length, refilled lanes, chained jobs and ring "
                      "wrap-around; every returned job is compared with the reference and a sample with the "
                      "same job run alone on a fresh manager."),
                note="interleavings are sampled, evidence lists lane-occupancy states seen at completion"),
    "C05": dict(category="exploration", design_ref="DESIGN.md 5 C05", engine="ring",
                technique="online trace checker against a sequential FIFO model (M-RING)",
                text=("Every scheduler call of scripted and random histories (job API and burst API, checked and "
                      "no-check, immediate/parking/rejected jobs, every ring phase, full queue, straddling "
                      "bursts) is checked online against a 40-line FIFO model: exactly-once, order, "
                      "completeness, queue size, flush/NULL, slot reuse, full-queue behaviour."),
                note="hangs are detected by a wall-clock watchdog and re-run once before being reported"),
    "C06": dict(category="exploration", design_ref="DESIGN.md 5 C06", engine="suite",
                technique="exhaustive enumeration of the suite matrix with dispatch oracle",
                text=("All 28x4x2x49x2 cells are submitted on every variant through job and burst API; accepted "
                      "cells must produce reference(stage A) then reference(stage B) on the same image, rejected "
                      "cells INVALID_ARGS; suite ids must agree between equal sessions."),
                note="acceptance model written from README/header rules; cells the documents are silent on are counted"),
    "C07": dict(category="exploration", design_ref="DESIGN.md 5 C07", engine="bounds",
                technique="guard pages + canaries + source snapshots (M-GUARD), memcheck, ASan/UBSan on C parts",
                text=("Every caller object of every job sits flush against PROT_NONE pages (end- and start-flush) "
                      "with canaries on the mapped side; faults and canary damage are classified per object; "
                      "source buffers are snapshotted; in-place and out-of-place results are compared."),
                note="page granularity on AVX512 variants; byte-exact only where memcheck/ASan can see (SSE/AVX2 t1, C code)"),
    "C08": dict(category="exploration", design_ref="DESIGN.md 5 C08", engine="nver",
                technique="N-version differential across 16 init/flag configurations + CPU-feature masking hook",
                text=("The same seeded stream of valid and invalid jobs runs on every (init function, flags) "
                      "configuration; outputs, statuses and error codes must be identical and equal to the "
                      "reference; cross-variant encrypt/decrypt; masked-CPU runs must fail with the "
                      "missing-CPU-flags error."),
                note="7 distinct variants on this host; feature masking uses hook H1"),
    "C09": dict(category="exploration", design_ref="DESIGN.md 5 C09", engine="entry",
                technique="differential across API entry points for the same work item",
                text=("Each work item runs through every entry point that accepts it (job checked/no-check, async "
                      "burst, sync cipher/hash/AEAD burst, direct functions); all results must be identical and "
                      "equal to the reference."),
                note="entry points covered are listed in the evidence"),
    "C10": dict(category="exploration", design_ref="DESIGN.md 5 C10", engine="sgl",
                technique="partition fuzzer + exhaustive 1/2-cut partitions vs one-shot result",
                text=("GCM-SGL / ChaCha20-Poly1305-SGL jobs and direct init/update/finalize calls over every "
                      "1- and 2-cut partition of short messages and random partitions of long ones; concatenated "
                      "output and tag must equal the one-shot job and the reference."),
                note="exhaustive for lengths up to the stated bound only"),
    "C11": dict(category="exploration", design_ref="DESIGN.md 5 C11", engine="keys",
                technique="differential monitor: helper outputs vs reference key schedules / consuming jobs",
                text=("Key-preparation helpers of every variant on structured and random keys compared with "
                      "reference schedules (standard layouts) or through consuming jobs (implementation "
                      "layouts); cross-variant interchange."),
                note="reference schedules are own code self-checked on FIPS/RFC vectors"),
    "C12": dict(category="fault_enumeration", design_ref="DESIGN.md 5 C12", engine="reject",
                technique="constraint-catalogue fault injection with write-protected buffers",
                text=("Every baseline job x every single-field violation (and boundary values) is submitted with "
                      "buffers write-protected; status, error code, untouched buffers/descriptor and acceptance "
                      "of a following valid job are checked; direct API NULL/over-limit sweeps."),
                note="catalogue written from the header documentation and error enum"),
    "C13": dict(category="exploration", design_ref="DESIGN.md 5 C13", engine="residue",
                technique="register-file/stack/manager residue scan via trampoline with two-pattern confirmation",
                text=("After the call that drains the manager the trampoline's register dump, the stack window "
                      "below the call and the manager block are scanned for patterned key/plaintext material; "
                      "hits must reappear with a second fill byte."),
                note="only residue present at API return is observable"),
    "C14": dict(category="exploration", design_ref="DESIGN.md 5 C14", engine="desc",
                technique="descriptor snapshot compare + error-code model after every call + strerror sweep",
                text=("M-DESC compares listed descriptor fields between submit and return in every engine; "
                      "M-ERRNO asserts the error code after every call; imb_get_strerror is swept over a wide "
                      "integer range."),
                note="lengths are deliberately not compared (CMAC rewrites the bit length)"),
    "C15": dict(category="exploration", design_ref="DESIGN.md 5 C15", engine="reinit",
                technique="re-init injection after every prefix + fresh-manager twin trace comparison",
                text=("init_mb_mgr_X is injected after sampled prefixes of random histories for all (old,new) "
                      "configuration pairs; afterwards the manager must be empty and a follow-up history must "
                      "produce the same API trace as on a freshly allocated manager."),
                note="trace equality includes completion timing, which exposes stale lane state"),
    "C16": dict(category="fault_enumeration", design_ref="DESIGN.md 5 C16", engine="crash",
                technique="real process death after every API call + re-attach in same/forked/exec'ed process",
                text=("The manager and all buffers live in a shared arena at a fixed address; the primary dies by "
                      "SIGKILL after call c for every c; a secondary re-attaches with imb_set_pointers_mb_mgr, "
                      "flushes and is checked by the FIFO model and the reference."),
                note="crash inside a call is outside the statement"),
    "C17": dict(category="exploration", design_ref="DESIGN.md 5 C17", engine="threads",
                technique="solo-vs-interleaved-vs-threaded differential, ThreadSanitizer, writable-segment diff",
                text=("N managers driven alone, interleaved and from N threads must give identical per-manager "
                      "results; TSan reports are classified by racing object; the library's writable segments "
                      "are diffed against an allow-list."),
                note="thread schedules are sampled"),
    "C18": dict(category="exploration", design_ref="DESIGN.md 5 C18", engine="abi",
                technique="assembly call trampoline sampling callee-saved registers/rsp/DF/MXCSR around every call",
                text=("Every API call of every engine goes through a trampoline with canaries in rbx/rbp/r12-r15 "
                      "and checks of rsp, DF and MXCSR; the abi engine adds lane-state and MXCSR sweeps; "
                      "link-time thunks check C-to-assembly calls."),
                note="only paths the workloads enter are observed; evidence lists entry points"),
    "C19": dict(category="exploration", design_ref="DESIGN.md 5 C19", engine="ct",
                technique="memcheck definedness taint on key schedules (ctgrind style)",
                text=("Under valgrind the key schedules of DES/3DES/DOCSIS-DES/KASUMI/SNOW3G jobs are marked "
                      "undefined; any conditional jump or address depending on them inside the library is "
                      "reported."),
                note="SSE-t1 and AVX2-t1 only (valgrind 3.19 CPU), which is the property's own scope"),
    "C20": dict(category="fault_enumeration", design_ref="DESIGN.md 5 C20", engine="selftest",
                technique="callback-stream monitor with exhaustive single and pairwise corruption",
                text=("A recording self-test callback corrupts each KAT alone, all pairs and random subsets on "
                      "every init function/flag configuration; FAIL set, pass bit and error code must match."),
                note="exhaustive over singles and pairs"),
}
