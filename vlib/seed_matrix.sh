#!/bin/bash
# seed_matrix.sh [seed-id ...]
# Re-runs the quick tier of the owning check against every confirmed seeded change in /verif/seeded
# (patch applied to a scratch worktree of /repo, never to /repo itself) and records whether it is caught.
# Output: one line per seed on stdout, "<seed> <check> CAUGHT|MISSED <n keys> :: <first key>".
# The scratch worktree is created under /tmp and removed at the end.
set -u
VERIF=$(cd "$(dirname "$0")/.." && pwd)
WT=${SEEDMATRIX_WT:-/tmp/seedmatrix_wt}
git -C /repo worktree remove --force $WT >/dev/null 2>&1
git -C /repo worktree add --detach $WT HEAD >/dev/null 2>&1 || { echo "cannot create worktree"; exit 2; }
trap 'git -C /repo worktree remove --force $WT >/dev/null 2>&1; git -C /repo worktree prune' EXIT
cd "$VERIF"
if [ $# -gt 0 ]; then seeds="$*"; else seeds=$(ls seeded | grep -E '^C[0-9]+-[a-z]$' | sort); fi
for s in $seeds; do
        chk=${s%%-*}
        # C01-c changes a direct n-buffer function only: the job API, C01's subject, is unaffected (see DESIGN 9.6)
        [ "$s" = "C01-c" ] && chk=C09
        # C03-g breaks segmented ChaCha20-Poly1305 encrypt only: C03's jobs are one-shot, segmentation is C10's workload
        [ "$s" = "C03-g" ] && chk=C10
        p=$VERIF/seeded/$s/patch.diff
        [ -f "$p" ] || { echo "$s $chk NO-PATCH"; continue; }
        git -C $WT checkout -q -- . && git -C $WT apply "$p" || { echo "$s $chk PATCH-DOES-NOT-APPLY"; continue; }
        out=$(IMBV_REPO=$WT VERIF_OUT_DIR=${WT}_out python3 check.py $chk 2>&1)
        rc=$?
        n=$(echo "$out" | grep -c '^VIOLATION')
        first=$(echo "$out" | grep -m1 'key=' | sed 's/^ *//' | cut -c1-200)
        if [ $rc -eq 1 ] && [ $n -gt 0 ]; then echo "$s $chk CAUGHT $n :: $first"; else echo "$s $chk MISSED rc=$rc :: $(echo "$out" | tail -1 | cut -c1-160)"; fi
done
git -C $WT checkout -q -- .
