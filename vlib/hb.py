#!/usr/bin/env python3
"""print path of the harness binary for a flavour (building it if needed)"""
import sys, os
sys.path.insert(0, os.path.dirname(os.path.dirname(os.path.abspath(__file__))))
from vlib import build
fl = sys.argv[1] if len(sys.argv) > 1 else "base"
try:
    print(build.harness(fl, shared=(len(sys.argv) > 2 and sys.argv[2] == "so")))
except Exception as e:
    sys.stderr.write(str(e)[-8000:] + "\n")
    sys.exit(2)
