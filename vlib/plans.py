"""Per-property run plans: which engines run, with which budgets, for which tier."""

N = 16  # shards


def _conf(fam, quick, thorough):
    def runs(tier, seed):
        return [{"engine": "conf", "args": ["--arg", fam], "cases": thorough if tier == "thorough" else quick,
                 "shards": N, "timeout": 3000 if tier == "thorough" else 900}]
    return runs


PLANS = {}

PLANS["C01"] = {
    "level": "exploration",
    "runs": _conf("cipher", 12000, 400000),
    "cov_class": "C01",
    "rule": ("cases = cipher jobs generated per (variant, cipher mode, key size) in batches of 1..40 jobs of "
             "mixed lengths (random, all-equal, increasing, block/4KiB/64KiB boundary lengths), random "
             "direction, IV class (random / counter-carry classes), in-place or out-of-place, buffers placed "
             "flush against guard pages; each job's destination is compared with an independent reference "
             "model. distinct = distinct (variant, mode-key, direction, len mod 16, length class, IV length, "
             "in-place, placement, bit residue) tuples; non-trivial = message length > 0 (all are)."),
    "floors": {"quick": {"jobs_checked": 50000, "cov:C01": 3000}, "thorough": {"jobs_checked": 2000000}},
    "assumptions": ["reference models (libcrypto AES/DES block functions, own mode/3GPP/SM4 models validated "
                    "against published vectors at start-up) are correct",
                    "CTR-bit-length IVs that wrap the low 32 counter bits are excluded (128-EEA2 defines a "
                    "64-bit counter, generic CTR a 32-bit one)",
                    "SNOW3G/KASUMI byte offsets > 0 and out-of-place bit offsets are excluded (library paths "
                    "disagree on whether the offset applies to dst; documentation is ambiguous)"],
}
PLANS["C02"] = {
    "level": "exploration",
    "runs": _conf("hash", 12000, 400000),
    "cov_class": "C02",
    "rule": ("cases = hash/MAC jobs per (variant, algorithm) in mixed-length batches, every permitted tag "
             "length, message lengths across block/padding boundaries, bit lengths for the 3GPP MACs; tag "
             "compared on its full requested length with an independent reference. distinct = distinct "
             "(variant, algorithm, len mod 16, length class, tag length, IV length, placement, bit residue)."),
    "floors": {"quick": {"jobs_checked": 50000, "cov:C02": 3000}, "thorough": {"jobs_checked": 2000000}},
    "assumptions": ["libcrypto SHA/MD5/HMAC and own CMAC/XCBC/GMAC/Poly1305/ZUC/SNOW3G/KASUMI/SM3/CRC models "
                    "are correct (self-checked on published vectors at start-up)",
                    "GHASH jobs with tag length < 16 are checked for memory safety only: the starting state "
                    "beyond the tag length is not specified"],
}
PLANS["C03"] = {
    "level": "exploration",
    "runs": _conf("aead", 8000, 250000),
    "cov_class": "C03",
    "rule": ("cases = AEAD/combined-mode jobs (GCM 128/192/256 any IV length, CCM 128/256, "
             "ChaCha20-Poly1305, SNOW-V-AEAD, SM4-GCM, DOCSIS-BPI+CRC32) in both directions; ciphertext/"
             "plaintext, tag and inserted CRC compared with independent references. distinct = distinct "
             "(variant, mode-key, direction, len mod 16, length class, IV length, tag length, AAD class, "
             "placement)."),
    "floors": {"quick": {"jobs_checked": 30000, "cov:C03": 2000}, "thorough": {"jobs_checked": 1000000}},
    "assumptions": ["own GCM/CCM/ChaCha20-Poly1305 models (cross-checked against libcrypto EVP at start-up) "
                    "and SNOW-V-GCM model are correct"],
}
