import os
"""Per-property run plans: which engines run, with which budgets, for which tier."""

N = 16  # shards


def _conf(fam, quick, thorough):
    def runs(tier, seed):
        return [{"engine": "conf", "args": ["--arg", fam], "cases": thorough if tier == "thorough" else quick,
                 "shards": N, "timeout": 3000 if tier == "thorough" else 900}]
    return runs


PLANS = {}

PLANS["C01"] = {
    "level": "exploration",
    "runs": _conf("cipher", 12000, 400000),
    "cov_class": "C01",
    "rule": ("cases = cipher jobs generated per (variant, cipher mode, key size) in batches of 1..40 jobs of "
             "mixed lengths (random, all-equal, increasing, block/4KiB/64KiB boundary lengths), random "
             "direction, IV class (random / counter-carry classes), in-place or out-of-place, buffers placed "
             "flush against guard pages; each job's destination is compared with an independent reference "
             "model. distinct = distinct (variant, mode-key, direction, len mod 16, length class, IV length, "
             "in-place, placement, bit residue) tuples; non-trivial = message length > 0 (all are). Second phase, systematic: every length of the windows 0..703 (thorough ..2303), 4032..4255, 8160..8223, 16352..16415, 40 consecutive lengths per batch, IV carry classes rotating."),
    "floors": {"quick": {"jobs_checked": 50000, "cov:C01": 3000}, "thorough": {"jobs_checked": 2000000}},
    "assumptions": ["reference models (libcrypto AES/DES block functions, own mode/3GPP/SM4 models validated "
                    "against published vectors at start-up) are correct",
                    "CTR-bit-length IVs that wrap the low 32 counter bits are excluded (128-EEA2 defines a "
                    "64-bit counter, generic CTR a 32-bit one)",
                    "SNOW3G/KASUMI byte offsets > 0 and out-of-place bit offsets are excluded (library paths "
                    "disagree on whether the offset applies to dst; documentation is ambiguous)"],
}
PLANS["C02"] = {
    "level": "exploration",
    "runs": _conf("hash", 12000, 400000),
    "cov_class": "C02",
    "rule": ("cases = hash/MAC jobs per (variant, algorithm) in mixed-length batches, every permitted tag "
             "length, message lengths across block/padding boundaries, bit lengths for the 3GPP MACs; tag "
             "compared on its full requested length with an independent reference. distinct = distinct "
             "(variant, algorithm, len mod 16, length class, tag length, IV length, placement, bit residue). Second phase, systematic: every length of the windows 0..703 (thorough ..2303), 4032..4255, 8160..8223, 16352..16415, 40 consecutive lengths per batch."),
    "floors": {"quick": {"jobs_checked": 50000, "cov:C02": 3000}, "thorough": {"jobs_checked": 2000000}},
    "assumptions": ["libcrypto SHA/MD5/HMAC and own CMAC/XCBC/GMAC/Poly1305/ZUC/SNOW3G/KASUMI/SM3/CRC models "
                    "are correct (self-checked on published vectors at start-up)",
                    "GHASH jobs with tag length < 16 are checked for memory safety only: the starting state "
                    "beyond the tag length is not specified"],
}
PLANS["C03"] = {
    "level": "exploration",
    "runs": _conf("aead", 8000, 250000),
    "cov_class": "C03",
    "rule": ("cases = AEAD/combined-mode jobs (GCM 128/192/256 any IV length, CCM 128/256, "
             "ChaCha20-Poly1305, SNOW-V-AEAD, SM4-GCM, DOCSIS-BPI+CRC32) in both directions; ciphertext/"
             "plaintext, tag and inserted CRC compared with independent references. distinct = distinct "
             "(variant, mode-key, direction, len mod 16, length class, IV length, tag length, AAD class, "
             "placement). Second phase, systematic: every length of the windows 0..703 (thorough ..2303), 4032..4255, 8160..8223, 16352..16415 per AEAD suite (PON XGEM frames with reference model included)."),
    "floors": {"quick": {"jobs_checked": 30000, "cov:C03": 2000}, "thorough": {"jobs_checked": 1000000}},
    "assumptions": ["own GCM/CCM/ChaCha20-Poly1305 models (cross-checked against libcrypto EVP at start-up) "
                    "and SNOW-V-GCM model are correct"],
}


ASAN_ENV = {"ASAN_OPTIONS": "detect_leaks=0:handle_segv=0:allow_user_segv_handler=1:abort_on_error=1:"
                            "detect_stack_use_after_return=0",
            "UBSAN_OPTIONS": "print_stacktrace=1:halt_on_error=1"}


def _with_asan(engine, quick, thorough, aq, at, args=()):
    """main run on the base flavour plus the same engine on the ASan+UBSan flavour (C code of the library:
    manager, validation, burst code, C kernels and glue)"""
    def runs(tier, seed):
        t = tier == "thorough"
        return [{"engine": engine, "args": list(args), "cases": thorough if t else quick, "shards": N,
                 "timeout": 3600 if t else 1200},
                {"engine": engine, "args": list(args), "cases": at if t else aq, "shards": N, "flavour": "asan",
                 "env": ASAN_ENV, "timeout": 3600 if t else 1200}]
    return runs


def _simple(engine, quick, thorough, args=(), shards=N, flavour="base", timeout=(900, 3600)):
    def runs(tier, seed):
        return [{"engine": engine, "args": list(args), "cases": thorough if tier == "thorough" else quick,
                 "shards": shards, "flavour": flavour, "timeout": timeout[1] if tier == "thorough" else timeout[0]}]
    return runs


PLANS["C04"] = {
    "level": "exploration",
    "runs": _simple("mix", 24000, 600000),
    "cov_class": "C04",
    "rule": ("cases = jobs inside schedule-fuzzer episodes (4..56 jobs from 1-3 focus suites sharing OOO "
             "managers + background/AEAD suites, chained jobs in both orders, length modes tiny/equal/"
             "increasing/one-huge, random flush/get-completed/drain points, checked and no-check submit); every "
             "returned job is compared with the reference and 5% are re-run alone on a fresh manager. distinct "
             "= distinct (variant, cipher, hash, jobs of the same suite in flight at completion, chained, order, "
             "API call that completed it) states; non-trivial = all (every job has a non-empty message)."),
    "floors": {"quick": {"jobs_checked": 100000, "alone_twins": 3000, "cov:C04": 3000},
               "thorough": {"jobs_checked": 3000000}},
    "assumptions": ["reference models as in C01-C03", "interleavings are sampled, not enumerated"],
}
PLANS["C05"] = {
    "level": "exploration",
    "runs": _with_asan("ring", 6000, 300000, 1600, 40000),
    "cov_class": "C05",
    "rule": ("cases = API histories (scripted: every ring phase 0..255 x parked oldest job x 254..315 further "
             "submissions incl. the full-queue condition, rejected job at head/middle/tail; burst scripts: queue "
             "filled to exactly 256, bursts 0/1/127/128/129, NULL array, out-of-order, stale suite id, invalid "
             "member, short get_next_burst; random histories) checked call-by-call against the FIFO model. "
             "distinct = distinct (variant, API, script, ring phase bucket, parameters, full-hit, wrapped) "
             "tuples; non-trivial = history wrapped the ring, hit the full condition or contained a rejected job "
             "(all scripted ones do)."),
    "floors": {"quick": {"histories": 3000, "ring_full_events": 1000, "ring_wraps": 1000, "rejected_jobs": 500},
               "thorough": {"histories": 100000}},
    "assumptions": ["job API and burst API are not mixed inside one history (the property says 'or')"],
}
PLANS["C06"] = {
    "level": "exploration",
    "runs": _simple("suite", 1, 1, timeout=(1200, 2400)),
    "cov_class": "C06",
    "exhaustive": True,
    "rule": ("exhaustive: every cell of cipher_mode(28) x key size {8,16,24,32} x direction(2) x hash_alg(49) x "
             "chain order(2) = 21952 cells on each of the 7 variants, through the job API and through "
             "imb_set_session + burst API on separate managers; acceptance model from README/header; accepted "
             "cells are executed in place and compared with reference(stage A) then reference(stage B); CUSTOM "
             "callbacks log the dispatch order. distinct = cells x variants; non-trivial = cell was submitted "
             "(all)."),
    "floors": {"quick": {"cells": 150000, "cells_executed_and_verified": 50000, "custom_dispatch_probes": 5000}},
    "assumptions": ["PON and SGL cells are checked for acceptance/rejection only here (executed by C03/C10 "
                    "engines)", "cells the documents are silent about (CBCS with 192/256-bit keys, CCM with the "
                    "other chain order) are counted, not judged"],
}
def _selftest_post(agg, res, label, synthetic):
    """entries announced by a clean init versus the pinned list (vlib/selftest_pin.json)"""
    import json as _json
    import re as _re
    here = os.path.dirname(os.path.abspath(__file__))
    pin = agg.__dict__.get("st_pin")
    if pin is None:
        pin = _json.load(open(os.path.join(here, "selftest_pin.json")))["entries"]
        agg.st_pin = pin
        doc = set()
        try:
            txt = open(os.path.join(os.environ.get("IMBV_REPO", "/repo"), "README.md")).read()
            sec = txt.split("### Self-Test", 1)[1]
            sec = sec.split("The self-test consists of", 1)[1].split("KAT_Cipher and KAT_AEAD types", 1)[0]
            for ln in sec.splitlines():
                m = _re.match(r"\s+-\s+([A-Za-z0-9-]+)\s*$", ln)
                if m:
                    doc.add(m.group(1))
        except (OSError, IndexError):
            pass
        agg.st_doc = doc
        agg.extra["documented_selftest_families"] = [", ".join(sorted(doc))]
    for line in res["out"].splitlines():
        if not line.startswith('{"ev":"selftest_entries"'):
            continue
        try:
            ev = _json.loads(line)
        except ValueError:
            continue
        got = set(ev["names"].split(","))
        agg.counts["entry_list_comparisons"] = agg.counts.get("entry_list_comparisons", 0) + 1
        for e in pin:
            if e["name"] in got:
                continue
            if agg.st_doc and e["readme_family"] not in agg.st_doc:
                continue  # no longer documented: not demanded
            synthetic.append(("C20", "C20|%s|entry-missing|%s" % (ev["cfg"], e["name"]),
                              "a clean initialisation on %s announced %d self-test entries without %s (family %s is "
                              "listed in README 'Self-Test'; the entry is part of the pinned list of this commit)"
                              % (ev["cfg"], len(got), e["name"], e["readme_family"]), None))


def _c20(tier, seed):
    runs = _simple("selftest", 300, 20000, shards=N)(tier, seed)
    for r in runs:
        r["post"] = _selftest_post
    return runs


PLANS["C20"] = {
    "level": "fault_enumeration",
    "runs": _c20,
    "cov_class": "C20",
    "exhaustive": True,
    "rule": ("fault enumeration over the self-test entries announced by the callback stream (33 on this build): "
             "each entry corrupted alone (exhaustive), pairs (quick: every 6th pair, thorough: all 528), random "
             "subsets, on each of the 16 (init function, flags) configurations; after each init the FAIL set, "
             "callback order, pass bit, IMB_FEATURE_SELF_TEST and errno are checked; the errno of a failed manager "
             "must survive a successful call on a second manager; the entry list of every clean init is compared "
             "with the pinned 33-entry list (vlib/selftest_pin.json) for families still documented. distinct = distinct "
             "(configuration, corruption set) cases; non-trivial = at least one entry corrupted."),
    "floors": {"quick": {"inits": 2000, "selftest_entries": 400, "errno_persistence_checks": 1500,
                         "entry_list_comparisons": 16}},
    "assumptions": ["the documented algorithm list is taken from README section 'Self-Test'; per-key-size entries "
                    "from the pinned list of this commit"],
}


def _c07(tier, seed):
    return [
        {"engine": "bounds", "args": [], "cases": 1, "shards": N, "timeout": 3000},
        {"engine": "mix", "args": [], "cases": 8000 if tier == "quick" else 200000, "shards": N, "timeout": 3000},
        # segment-wise (SGL / init-update-finalize) and direct-API calls: every segment, context and key object is guard-placed
        {"engine": "sgl", "args": [], "cases": 1500 if tier == "quick" else 60000, "shards": N, "timeout": 3000},
        {"engine": "abi", "args": [], "cases": 12 if tier == "quick" else 200, "shards": N, "timeout": 3000},
        {"engine": "entry", "args": [], "cases": 4000 if tier == "quick" else 200000, "shards": N, "timeout": 3000},
        # the library's C code (3GPP C kernels, ChaCha20-Poly1305/SM4-GCM glue, manager) under ASan+UBSan: overflows of the
        # library's own stack/static buffers that guard pages around *caller* objects cannot see
        {"engine": "bounds", "args": [], "cases": 1, "shards": N, "flavour": "asan", "env": ASAN_ENV, "timeout": 3000},
        {"engine": "mix", "args": [], "cases": 4000 if tier == "quick" else 60000, "shards": N, "flavour": "asan",
         "env": ASAN_ENV, "timeout": 3000},
        {"engine": "sgl", "args": [], "cases": 600 if tier == "quick" else 20000, "shards": N, "flavour": "asan",
         "env": ASAN_ENV, "timeout": 3000},
        {"engine": "entry", "args": [], "cases": 1500 if tier == "quick" else 50000, "shards": N, "flavour": "asan",
         "env": ASAN_ENV, "timeout": 3000},
    ]


PLANS["C07"] = {
    "level": "exploration",
    "runs": _c07,
    "cov_class": ["C07", "C04"],
    "rule": ("cases = guarded jobs: every suite (cipher, hash, AEAD tables) x every message length 0/1..140 "
             "(thorough: ..272) plus 511-513, 1023-1025, 4095-4097, 8191, 16384, 65519-65534 x {end-flush, "
             "start-flush} placement, alternating in-place/out-of-place, as single jobs and as co-scheduled "
             "batches of 5 and 17 jobs each in its own arenas; every caller object (src, dst, IV, AAD, tag, each "
             "key structure at its documented size) ends/starts at a PROT_NONE page with canaries on the mapped "
             "side; plus schedule-fuzzer episodes with the same placement. Oracles: page faults classified per "
             "object, canary damage, source snapshot, reference comparison. distinct = distinct (variant, suite, "
             "direction, len mod 16, length class, IV/tag/AAD class, in-place, placement) tuples. Also run with the same monitors: the SGL / init-update-finalize partition engine (every segment its own guard-placed object), the direct-API sweep and the entry-point engine."),
    "floors": {"quick": {"guarded_jobs": 300000, "jobs_checked": 300000}},
    "assumptions": ["page-granular detection for reads inside the mapped slack is limited to the canary span "
                    "(writes) -- reads that stay within the same page are only seen when the object ends at the "
                    "page boundary (end-flush placement does that for every object)",
                    "object sizes are the documented ones"],
}
PLANS["C12"] = {
    "level": "fault_enumeration",
    "runs": lambda tier, seed: _with_asan("reject", 1, 1, 1, 1)(tier, seed) + [
        # direct-API functions x every NULL / over-limit argument (second half of the statement), also under ASan+UBSan
        {"engine": "abi", "args": [], "cases": 32 if tier == "quick" else 400, "shards": N, "timeout": 3000},
        {"engine": "abi", "args": [], "cases": 8 if tier == "quick" else 64, "shards": N, "flavour": "asan", "env": ASAN_ENV,
         "timeout": 3000},
        # "misuse of the burst calls": the burst misuse scripts of the ring engine (too many jobs, NULL array, NULL job,
        # too little queue space, out-of-order slots, stale suite id, invalid job inside a burst)
        {"engine": "ring", "args": [], "cases": 1500 if tier == "quick" else 60000, "shards": N, "timeout": 3000}],
    "cov_class": ["C12", "abi_null_code", "abi_limit_code"],
    "exhaustive": True,
    "rule": ("fault enumeration: for every suite (cipher, hash, AEAD tables; 3 lengths x 2 directions) and 19 "
             "maximal-length baselines, on every variant and through both the job API and the burst API: the "
             "baseline is confirmed accepted and correct, then each catalogue entry violates one documented "
             "constraint (NULL pointers incl. each 3DES schedule, enums out of range, illegal key/IV lengths, every "
             "illegal tag length 0..65, zero/over-limit/misaligned lengths, AAD over limit, CCM/DOCSIS geometry, "
             "AEAD pairing mismatches, NULL custom callbacks); buffers are write-protected during the submit; "
             "status, error code (documented acceptable set), descriptor and buffers are compared; every 16th "
             "entry is followed by the valid job again. distinct = distinct (variant, suite, entry, API, errno). Third API: the synchronous IMB_SUBMIT_CIPHER_BURST / HASH_BURST / AEAD_BURST calls (cipher, direction, key size, hash passed as parameters taken from the perturbed descriptor; entries touching fields those calls never read are skipped). Valid variants (unused key pointer NULL) must be accepted. Direct-API sweep: every function pointer of IMB_MGR and the exported helpers x every NULL pointer argument / NULL array element x documented limits, also under ASan+UBSan."),
    "floors": {"quick": {"catalogue_entries_run": 150000, "valid_jobs_confirmed": 8000, "direct_calls_null": 100000,
                         "direct_calls_limit": 20000, "direct_functions": 122,
                         "direct_error_codes_judged_by_role": 100000}},
    "assumptions": ["acceptable error codes per entry come from the names in the IMB_ERR enum; where two names "
                    "equally describe the constraint both are accepted"],
}


def _c08(tier, seed):
    return [
        {"engine": "nver", "args": [], "cases": 8000 if tier == "quick" else 400000, "shards": N, "timeout": 3000},
        # valgrind's synthetic CPU has no AVX512/SHA-NI/GFNI/VAES: a real "older CPU"
        {"engine": "nver", "args": ["--valgrind"], "cases": 48 if tier == "quick" else 1600, "shards": N,
         "prefix": ["valgrind", "-q", "--error-exitcode=9"], "timeout": 3000},
        # direct-API calls: valid outputs N-versioned between variants, error codes of perturbed calls must agree
        {"engine": "abi", "args": [], "cases": 8 if tier == "quick" else 120, "shards": N, "timeout": 3000},
    ]


PLANS["C08"] = {
    "level": "exploration",
    "runs": _c08,
    "cov_class": "C08",
    "rule": ("cases = work items (valid ones of every suite family incl. chained, plus items carrying one "
             "catalogue violation) each executed on all 16 (init_mb_mgr_{sse,avx2,avx512,auto} x flags) "
             "configurations; status, error code and a fingerprint of output/tag/source image must be identical on "
             "all of them and valid outputs equal the reference; every third cipher item is encrypted on one "
             "configuration and decrypted on another; five CPU models are emulated with the feature-mask hook "
             "(init must fail with IMB_ERR_MISSING_CPUFLAGS_INIT_MGR for unsupported architectures, auto must pick "
             "the best supported one, the selected variant must produce reference results); the same stream runs "
             "under valgrind, whose CPU lacks AVX512/SHA-NI/GFNI/VAES. distinct = distinct (cipher, hash, "
             "violation or valid, status, errno) tuples + configuration pairs + CPU-model outcomes. Every fourth unit is a batch of 2..24 jobs of one suite submitted back to back (lanes fill, jobs complete inside submit) on all 16 configurations with per-job fingerprints compared. Direct-API sweep (engine abi): outputs without a reference are "
             "N-versioned between the seven variants and the error code of every NULL / over-limit perturbed call must be "
             "the same on all variants."),
    "floors": {"quick": {"items": 6000, "invalid_items": 1500, "cross_config_decrypts": 500, "cpu_models": 5,
                         "direct_error_codes_compared_between_variants": 20000}},
    "assumptions": ["7 distinct variants are reachable on this host (recorded in variants_exercised)"],
}
PLANS["C09"] = {
    "level": "exploration",
    "runs": lambda tier, seed: _simple("entry", 12000, 600000)(tier, seed) + [
        # direct-API sweep: every function pointer of IMB_MGR and the exported helpers (valid calls vs reference / N-version)
        {"engine": "abi", "args": [], "cases": 48 if tier == "quick" else 600, "shards": N, "timeout": 3000}],
    "cov_class": ["C09", "abi_len"],
    "rule": ("cases = work items of every suite, each run through: submit_job, submit_job_nocheck, async "
             "submit_burst / submit_burst_nocheck (1..17 jobs, item at a random position among decoys), "
             "synchronous cipher/hash/AEAD bursts (1..17 jobs, checked and no-check), and the direct functions "
             "(GCM one-shot and init/update/finalize, GMAC, GHASH, SHA one-shot, CRC function pointers, "
             "ChaCha20-Poly1305 init/update/finalize, ZUC EEA3 1/4/n and EIA3 1/n buffers, SNOW3G f8 "
             "1/bit/2/4/8/n/multikey and f9, KASUMI f8 1/bit/2/3/4/n and f9, single-block CFB); every result is "
             "compared with the reference. distinct = distinct (variant, entry point, cipher, hash, n / length "
             "class) tuples."),
    "floors": {"quick": {"work_items": 8000, "entry_point_runs": 40000, "direct_calls_valid": 30000,
                         "direct_outputs_verified_by_reference": 30000}},
    "assumptions": ["QUIC helpers, HEC and SHA one-block entry points are exercised by the keys/abi engines, not "
                    "compared here", "SNOW3G/KASUMI n-buffer calls use at most 16 packets (documented limit)"],
}

PLANS["C10"] = {
    "level": "exploration",
    "runs": _simple("sgl", 2000, 200000, timeout=(1800, 7200)),
    "cov_class": "C10",
    "exhaustive": False,
    "rule": ("cases = partitions: for every variant x {AES-GCM-128/192/256, ChaCha20-Poly1305} x direction x "
             "message length 0..40 (thorough: 0..130) ALL partitions with one or two cuts (cuts at 0 and at the end "
             "give empty segments) through the three interfaces (SGL job INIT/UPDATE/COMPLETE, SGL_ALL job with an "
             "iov array, direct init/update/finalize), plus random partitions (1..40 segments of sizes from "
             "{0,1,15,16,17,63,64,65,random}, messages up to 70 KiB) through all three interfaces and GMAC "
             "init/update/finalize; concatenated output and tag must equal the one-shot reference. distinct = "
             "(variant, algorithm, direction, length) exhaustive cells + random (variant, algorithm, segment "
             "count, size class) tuples; every partition is a non-trivial case, their number is in "
             "monitor_events.partitions_checked."),
    "floors": {"quick": {"partitions_checked": 300000, "segment_calls": 800000}},
    "assumptions": ["exhaustive over one/two-cut partitions only up to the stated length bound"],
}
PLANS["C11"] = {
    "level": "exploration",
    "runs": _simple("keys", 10000, 1000000),
    "cov_class": "C11",
    "rule": ("cases = helper calls per variant on structured (all-zero, all-one, single-bit, walking-byte) and "
             "random keys: AES-128/192/256 expansion (both schedules vs FIPS-197 / equivalent inverse cipher), "
             "CMAC sub-keys, XCBC K1/K2/K3, imb_hmac_ipad_opad for 7 hashes x key lengths around 1/2/3 blocks (MD5 "
             "> 64 must be refused untouched), SM4 round keys, AES schedule inside gcm_key_data, six 3GPP IV "
             "generators; DES weak/semi-weak keys, KASUMI/SNOW3G/DES schedules through consuming jobs; material "
             "made by variant A consumed by a job on variant B. distinct = distinct (variant, helper, key class "
             "/ key length) and (maker, user, algorithm) tuples."),
    "floors": {"quick": {"helper_calls": 300000, "interchange_jobs": 8000}},
    "assumptions": ["HMAC partial states via libcrypto low-level *_Transform and own SM3 compression function"],
}

PLANS["C13"] = {
    "level": "exploration",
    "runs": _simple("residue", 24000, 1200000),
    "cov_class": "C13",
    "rule": ("cases = schedules (suite from the cipher/hash/AEAD tables or a random chained pair; 1..17 jobs so "
             "that completion happens inside submit with full lanes or by flush with partially filled lanes; three "
             "length modes) run once per secret class (cipher key material / authentication key material / "
             "plaintext) with that class filled with a pattern byte absent from a fresh manager and everything else "
             "random; after the API call that hands back the last job the trampoline's register dump (GPRs, "
             "zmm0-31, k0-7), the 64 KiB stack window below the call and the whole manager block are scanned for 8 "
             "pattern bytes; a hit is confirmed by repeating the schedule with another byte on a fresh manager; 15 "
             "key helpers are scanned after each call. distinct = distinct (variant, cipher, hash, class, job "
             "count, length mode) tuples; non-trivial = a scan was actually taken (schedules whose secrets cannot "
             "be patterned are skipped and not counted). Messages and AAD of GHASH-type MACs are in half of the schedules single-bit blocks (x^(8k) in GF(2^128)), so that GHASH partial products (message x hash key) are byte-shifted copies of the key and product residue is visible to the pattern oracle; bit-length ciphers also run with non-byte bit lengths and single-block messages. Fourth class DERIVED (AEAD-type "
             "suites and standalone GMAC): keys are random, the secrets the library derives itself - H = E_K(0) and "
             "E_K(J0) of AES-GCM/GMAC and SM4-GCM, the one-time Poly1305 key of ChaCha20-Poly1305, hash key and end "
             "pad of SNOW-V-AEAD - are computed with the reference models and registers, stack window and manager are "
             "searched for either 8-byte half of each value. The same value search runs after each direct AEAD call "
             "(GCM pre / one-shot enc+dec / init-update-finalize for the three key sizes, GHASH pre + GHASH, "
             "ChaCha20-Poly1305 init-update-finalize) for H, E_K(J0), the one-time Poly1305 key and the raw key. "
             "Key-preparation helpers are additionally called with random keys (24 helper forms: AES-128/192/256, DES, SM4, "
             "SNOW3G, KASUMI F8/F9, XCBC, CMAC sub-keys 128/256, GCM pre 128/192/256, GHASH pre, imb_hmac_ipad_opad for "
             "MD5/SHA-1/224/256/384/512 incl. over-long key and one-state-only) and every entropic aligned 8-byte chunk of "
             "what the helper wrote into the caller's objects (round keys, schedules, sub-keys, hash-key tables, ipad/opad "
             "states) and of the raw key is searched for in the register dump and the stack window (model-free DERIVED class)."),
    "floors": {"quick": {"residue_scans": 15000, "helper_scans": 150, "derived_secret_searches": 20000,
                         "direct_value_scans": 8000, "helper_value_scans": 400,
                         "helper_value_chunks_searched": 12000}},
    "assumptions": ["only residue present at the return of the emptying API call is observable",
                    "derived secrets other than those listed under DERIVED (round keys computed inside a job from a real key, "
                    "LFSR/FSM states of the stream ciphers, CBC-MAC/HMAC intermediate values) are outside both oracles; "
                    "expanded key material is patterned directly instead, and what the key helpers derive is searched by value"],
}


def _c14(tier, seed):
    return [
        {"engine": "desc", "args": [], "cases": 1, "shards": N, "timeout": 3000},
        # M-DESC / M-ERRNO are always on: feed them a schedule-fuzzer and a rejection workload as well
        {"engine": "mix", "args": [], "cases": 6000 if tier == "quick" else 150000, "shards": N, "timeout": 3000},
        {"engine": "ring", "args": [], "cases": 1500 if tier == "quick" else 60000, "shards": N, "timeout": 3000},
        # SGL jobs (init/update/complete descriptors carry caller-owned context pointers in the union)
        {"engine": "sgl", "args": [], "cases": 1500 if tier == "quick" else 60000, "shards": N, "timeout": 3000},
        # error.c / validation / burst code under ASan+UBSan
        {"engine": "desc", "args": [], "cases": 1, "shards": 4, "flavour": "asan", "timeout": 3000,
         "env": {"ASAN_OPTIONS": "detect_leaks=0:handle_segv=0:allow_user_segv_handler=1:abort_on_error=1",
                 "UBSAN_OPTIONS": "print_stacktrace=1:halt_on_error=1"}},
    ]


PLANS["C14"] = {
    "level": "exploration",
    "runs": _c14,
    "cov_class": ["C14", "C04", "C05"],
    "rule": ("cases = (a) descriptor snapshots: every job handed back in the template-reuse workload (every "
             "suite x 12 or 40 re-submissions of one imb_set_session template through burst and job API, checked "
             "and no-check), in schedule-fuzzer episodes and in ring histories is compared field by field with its "
             "snapshot at submit (listed fields only) and its status must be final; (b) after every API call the "
             "manager's error code is compared with the expectation of that call (0 / the call's own code); (c) "
             "imb_get_strerror over [-70000,70000], powers of two +-1, INT_MIN/MAX and random 32-bit values "
             "(non-NULL, terminated, library text for every library code); (d) the same under ASan+UBSan. distinct "
             "= distinct (variant, suite) reuse cells + strerror texts + schedule states."),
    "floors": {"quick": {"template_reuse_jobs": 5000, "strerror_calls": 300000, "desc_checks": 100000,
                         "errno_checks": 300000, "custom_failure_jobs": 1500}},
    "assumptions": ["length fields of the descriptor are not compared (CMAC rewrites msg_len_to_hash into bits; the "
                    "property does not list lengths)", "u.SNOW_V_AEAD.reserved is documented scratch space"],
}

PLANS["C15"] = {
    "level": "exploration",
    "runs": _simple("reinit", 3000, 150000),
    "cov_class": "C15",
    "rule": ("cases = re-initialisation experiments: a random history H1 (job or burst API, parking-heavy suites, "
             "0..40 jobs) is cut after a sampled prefix so that jobs are still in flight, then init_mb_mgr_X of a "
             "sampled configuration (same or other architecture; flags stay those of the allocation) is called on "
             "the same memory; the manager must be empty (queue size 0, get_completed/flush NULL, error code 0), no "
             "job of H1 may ever be handed back, and a follow-up history H2 must give call by call the same API trace "
             "(which job came back at which call, status, queue size, output hash - every output also compared with "
             "the reference model) as on a freshly allocated manager of the new configuration. distinct = distinct "
             "(old configuration, new configuration, jobs in flight bucket, API of H1) tuples; non-trivial = at least "
             "one job in flight at the re-initialisation."),
    "floors": {"quick": {"reinits": 2500, "jobs_in_flight_at_reinit": 10000, "cov:C15": 300, "session_contract_checks": 3000}},
    "assumptions": ["feature flags of a manager are fixed by alloc_mb_mgr(flags); only the init function varies"],
}


def _c16(tier, seed):
    return [{"engine": "crash", "args": [], "cases": 672 if tier == "quick" else 5600, "shards": N,
             "timeout": 1800 if tier == "quick" else 7200, "aux_bins": {"IMBV_CRASH_EXEC": ("base", True)}}]


PLANS["C16"] = {
    "level": "fault_enumeration",
    "runs": _c16,
    "cov_class": "crash_point",
    "rule": ("fault enumeration over crash points: for each sampled history (10..47 jobs of 19 cipher, 18 hash, 4 "
             "AEAD suites and chained cipher+HMAC pairs, mixed lengths, random get_completed/flush calls; manager, "
             "buffers, keys, IVs and tags all inside one memfd arena mapped at a fixed address) EVERY crash point c "
             "= 1..number of scheduler calls is exercised: a primary process runs the history up to call c and is "
             "killed with SIGKILL; a second process maps the arena, calls imb_set_pointers_mb_mgr(ptr, flags, 0) and "
             "flushes. Oracle: every job in flight (per the FIFO model at the crash) is handed back exactly once, in "
             "submission order, in its own slot, COMPLETED, with output and tag equal to the reference model; jobs "
             "collected before the crash never come back; queue size matches before and is 0 after; a follow-up "
             "episode of 12 verified jobs runs on the re-attached manager. Secondary kinds: same process (control), "
             "forked child, fork+exec of the PIE/shared-library build (library load address recorded on both sides). "
             "The first 2 x 7 x 40 histories walk systematically through (variant, out-of-order manager): 80 % of their jobs go to "
             "that manager in its parking direction, so all its lanes are occupied at the crash points. "
             "quick: kinds rotate over crash points; thorough: all three kinds at every point. distinct = distinct "
             "(variant, history, crash point, kind) points and (variant, last call, in-flight bucket, kind) states; "
             "non-trivial = at least one job in flight at the crash."),
    "floors": {"quick": {"crash_points": 24000, "points_with_inflight": 20000, "jobs_recovered": 200000,
                         "exec_secondaries_other_load_address": 6000, "cov:crash_state": 300, "cov:crash_focus": 2000}},
    "assumptions": ["a crash inside a library call (manager state half-updated) is outside the property ('between "
                    "API calls')", "CUSTOM cipher/hash jobs (function pointers supplied by the dead process) are not "
                    "part of the histories"],
}


TSAN_ALLOWED_GLOBALS = {"imb_errno", "cpuid_1_0", "cpuid_7_0", "cpuid_7_1", "counter.0", "counter",
                        "imb_verif_cpu_feature_mask"}


def _tsan_post(agg, res, label, synthetic):
    """Classify ThreadSanitizer reports by racing object: documented process-wide globals are counted,
    anything else that involves library code is a C17 violation."""
    import re
    blocks = res["err"].split("==================")
    nrep = 0
    for b in blocks:
        if "WARNING: ThreadSanitizer" not in b:
            continue
        nrep += 1
        kind = re.search(r"WARNING: ThreadSanitizer: ([^(\n]+)", b).group(1).strip()
        loc = re.search(r"Location is (global '([^']+)'|heap block|stack of|TLS of|file descriptor)", b)
        gname = loc.group(2) if loc and loc.group(2) else None
        locs = gname or (loc.group(1) if loc else "unknown")
        libframes = re.findall(r"#\d+ (\S+) /repo/lib/\S+", b)
        if kind.startswith("data race") and gname in TSAN_ALLOWED_GLOBALS:
            agg.counts["tsan_reports_on_documented_globals"] = agg.counts.get("tsan_reports_on_documented_globals", 0) + 1
            s = agg.samples.setdefault("tsan", [])
            if len(s) < 4:
                s.append("data race on documented global '%s' (%s)" % (gname, libframes[0] if libframes else "?"))
            continue
        if not libframes:
            agg.counts["tsan_reports_harness_only"] = agg.counts.get("tsan_reports_harness_only", 0) + 1
            if len(agg.notes) < 40:
                agg.notes.append({"ev": "note", "what": "tsan-harness-only", "detail": b.strip()[:600]})
            continue
        key = "C17|tsan|%s|%s|%s" % (kind.replace(" ", "-"), locs, libframes[0])
        synthetic.append(("C17", key, "ThreadSanitizer report involving library code:\n" + b.strip()[:1800], None))
    agg.counts["tsan_report_blocks"] = agg.counts.get("tsan_report_blocks", 0) + nrep
    agg.counts["tsan_runs"] = agg.counts.get("tsan_runs", 0) + 1


def _c17(tier, seed):
    q = tier == "quick"
    tsan_env = {"TSAN_OPTIONS": "halt_on_error=0:exitcode=0:report_signal_unsafe=0:history_size=4"}
    return [
        # few shards so that the threads of one shard really run in parallel
        {"engine": "threads", "args": [], "cases": 1200 if q else 40000, "shards": 3, "timeout": 3000},
        # M-SEG needs the library as a shared object (own writable segment); eager binding keeps the GOT still
        {"engine": "threads", "args": [], "cases": 300 if q else 6000, "shards": 2, "shared": True, "timeout": 3000,
         "env": {"LD_BIND_NOW": "1"}},
        {"engine": "threads", "args": [], "cases": 120 if q else 3000, "shards": 2, "flavour": "tsan", "timeout": 3000,
         "env": tsan_env, "post": _tsan_post},
    ]


PLANS["C17"] = {
    "level": "exploration",
    "runs": _c17,
    "cov_class": "C17",
    "rule": ("cases = sets of 2..8 programs (one manager each; variants all-equal or mixed, sometimes two identical "
             "programs; allocation + init incl. self-test, 8..19 jobs of 16 cipher / 16 hash / 7 AEAD suites and "
             "chained pairs, invalid submissions, get_completed/flush, 8 kinds of direct-API calls incl. misuse "
             "that sets the error code, free). Every call yields a trace record (job handed back, status, output "
             "hash, manager's own error code, imb_get_errno value). Each case is run alone, interleaved call by call "
             "in one thread (random schedule, with delayed error-code reads of idle managers) and 3-4 times with one "
             "thread per program (two barriers, random yields/spins); traces must be equal record by record and all "
             "outputs equal the reference models. An atomic gauge counts calls that overlapped with another "
             "thread's call. Second run: shared-library build, the library's writable segment is diffed around every "
             "case (positive control at start), changes outside the documented globals are violations. Third run: "
             "ThreadSanitizer build, reports classified by racing object. distinct = distinct (variant combination, "
             "number of managers) cases; non-trivial = all cases have >=2 managers."),
    "floors": {"quick": {"cases": 1500, "overlapped_steps": 100000, "program_traces_compared": 20000,
                         "mseg_selfcheck_ok": 2, "mseg_bytes_diffed": 10000000, "tsan_runs": 2,
                         "delayed_errno_reads": 5000}},
    "assumptions": ["each manager is used by one thread at a time (as documented)",
                    "ThreadSanitizer sees the library's C code only; hand-written assembly is not instrumented (the "
                    "writable-segment diff covers globals written from assembly)",
                    "schedules are sampled by the OS scheduler plus injected yields, not enumerated"],
}


def _ct_post(agg, res, label, synthetic):
    import re
    blocks = re.split(r"\n==\d+== \n", res["err"])
    lib = [b for b in blocks if ("Conditional jump" in b or "Use of uninit" in b) and "control_" not in b
           and "des_key_schedule" not in b]
    ctl = [b for b in blocks if "control_" in b]
    agg.counts["memcheck_control_reports"] = agg.counts.get("memcheck_control_reports", 0) + len(ctl)
    agg.counts["memcheck_reports_in_job_processing"] = agg.counts.get("memcheck_reports_in_job_processing", 0) + len(lib)
    for b in lib[:3]:
        if len(agg.notes) < 40:
            agg.notes.append({"ev": "note", "what": "memcheck-report", "detail": b.strip()[:900]})


def _c19(tier, seed):
    return [{"engine": "ct", "args": ["--valgrind", "--no-selfcheck"], "cases": 32 if tier == "quick" else 600, "shards": N,
             "prefix": ["valgrind", "-q", "--tool=memcheck", "--error-limit=no", "--num-callers=12"],
             "timeout": 3000 if tier == "quick" else 14000, "post": _ct_post}]


PLANS["C19"] = {
    "level": "exploration",
    "runs": _c19,
    "cov_class": "C19",
    "rule": ("cases = batches of 1, 3..7 or 9..19 jobs (flush path, partially and fully occupied lanes) of DES-CBC, "
             "3DES-CBC, DOCSIS-DES (also chained with HMAC-SHA1), KASUMI-F8, KASUMI-F9, SNOW3G-UEA2, SNOW3G-UIA2 (also "
             "chained), both directions, 21 lengths 1..1000, on the variants valgrind can execute (SSE-t1, AVX2-t1), "
             "plus 13 direct KASUMI/SNOW3G 1/2/4/8/N-buffer functions; every key object handed to the library is "
             "marked undefined (secret) in memcheck before submission while IVs, lengths and pointers stay defined; "
             "the memcheck error counter is sampled around the library calls: any 'conditional jump depends on' / "
             "'use of uninitialised value' (address) report is a violation; outputs are declassified and compared with "
             "the reference afterwards. Start-up controls: a table lookup indexed by a secret byte and a branch on a "
             "secret bit in harness code must be reported, a secret-independent XOR must not. distinct = distinct "
             "(variant, algorithm, direction, batch bucket) + (variant, direct function, length class); non-trivial "
             "= all (every case taints at least one key schedule)."),
    "floors": {"quick": {"ct_controls_ok": 16, "ct_jobs_tainted": 3000, "ct_direct_calls_tainted": 50,
                         "memcheck_control_reports": 16}},
    "assumptions": ["memcheck's definedness propagation is bit-precise enough: it over-approximates for a few "
                    "instructions (would show as false alarms, none seen) and does not model timing differences of "
                    "individual instructions",
                    "only SSE-t1 and AVX2-t1 run under valgrind 3.19 (no AVX512/VAES/GFNI/SHA-NI in its CPU model)",
                    "key set-up functions are outside the property ('while processing a job'); observed there: "
                    "des_key_schedule indexes the byte-reflection table by key bytes (recorded in evidence extra, "
                    "DESIGN.md)"],
}


def _abi_post(agg, res, label, synthetic):
    import json as _json
    import os as _os
    import re as _re
    names = agg.__dict__.setdefault("abi_names", set())
    for line in res["out"].splitlines():
        if line.startswith('{"ev":"abi_exports"'):
            try:
                names.update(_json.loads(line)["names"].split(","))
            except ValueError:
                pass
    # official export list
    exp = agg.__dict__.get("abi_official")
    if exp is None:
        exp = set()
        deff = _os.path.join(_os.environ.get("IMBV_REPO", "/repo"), "lib", "libIPSec_MB.def")
        try:
            for ln in open(deff):
                m = _re.match(r"\s+([A-Za-z_0-9]+)\s+@\d+", ln)
                if m:
                    exp.add(m.group(1))
        except OSError:
            pass
        agg.abi_official = exp
    # several exported names are aliases of one address (e.g. the AVX512 non-VAES GCM entry points are the AVX2 "gen4"
    # routines): entering one enters all of them
    alias = agg.__dict__.get("abi_alias")
    if alias is None:
        alias = {}
        try:
            import subprocess as _sp
            from vlib import build as _build
            so = _os.path.join(_build.lib("base", quiet=True), "libIPSec_MB.so.2")
            byaddr = {}
            for ln in _sp.run(["nm", "-D", "--defined-only", so], stdout=_sp.PIPE, text=True).stdout.splitlines():
                f = ln.split()
                if len(f) == 3 and f[1] in "TtWw":
                    byaddr.setdefault(f[0], []).append(f[2])
            for grp in byaddr.values():
                for n in grp:
                    alias[n] = grp
        except Exception:  # noqa: BLE001
            pass
        agg.abi_alias = alias
    for n in list(names):
        names.update(alias.get(n, ()))
    hit = names & exp
    agg.counts["exported_functions_total"] = len(exp)
    agg.counts["exported_functions_entered_directly"] = len(hit)
    missing = sorted(exp - names)
    agg.extra["exported_functions_not_entered_directly"] = [", ".join(missing)[:6000]]


def _c18(tier, seed):
    q = tier == "quick"
    runs = []
    for eng, cq, ct_, args in (("entry", 6000, 300000, []), ("mix", 16000, 400000, []), ("ring", 1500, 60000, []),
                               ("sgl", 1500, 60000, []), ("keys", 1500, 60000, []), ("reject", 1, 1, []),
                               ("abi", 6, 64, [])):
        if eng == "abi" and not os.path.exists(os.path.join(os.path.dirname(os.path.dirname(os.path.abspath(__file__))),
                                                             "harness", "eng_abi.c")):
            continue
        runs.append({"engine": eng, "args": ["--abi"] + args, "cases": cq if q else ct_, "shards": N, "shared": True,
                     "timeout": 3600, "post": _abi_post})
    # M-WRAP: the same workloads on the build in which every C-to-assembly call inside the library goes through a
    # monitoring thunk (internal kernels whose C wrapper would hide a clobbered register from the API boundary)
    for eng, cq, ct_ in (("mix", 8000, 200000), ("entry", 3000, 150000), ("abi", 4, 32), ("sgl", 800, 30000), ("ring", 600, 20000),
                         ("reject", 1, 1), ("keys", 800, 30000)):
        if eng == "abi" and not os.path.exists(os.path.join(os.path.dirname(os.path.dirname(os.path.abspath(__file__))),
                                                             "harness", "eng_abi.c")):
            continue
        runs.append({"engine": eng, "args": ["--abi"], "cases": cq if q else ct_, "shards": N, "wrap": True, "timeout": 3600})
    return runs


PLANS["C18"] = {
    "level": "exploration",
    "runs": _c18,
    "cov_class": "C18",
    "rule": ("cases = library calls made through the assembly trampoline (M-TRAMP): before the call rbx, rbp, r12-r15 are "
             "loaded with fresh random canaries, MXCSR is set to one of 10 values (4 rounding modes, FTZ, DAZ, all "
             "sticky flags set, combinations; exceptions masked), vector and mask registers are zeroed; immediately "
             "after the return - before any compiled code runs - the register file, rsp, RFLAGS.DF and MXCSR are "
             "sampled and compared. Workloads: every entry point x every suite (entry engine), schedule fuzzer (submit "
             "that parks / completes / is rejected, flush and get_completed with every occupancy), ring histories incl. "
             "full queue and burst API, SGL, key helpers, the rejection catalogue (error exits) and the direct-API sweep "
             "(valid, NULL and over-limit arguments = SAFE_PARAM error exits) on the shared-library build, all 7 "
             "variants. distinct = distinct (variant, entry point, returned NULL/non-NULL, MXCSR value) tuples; lane "
             "states are counted separately in abi_lane_state (variant, call, cipher, hash, queue occupancy, outcome); "
             "the dynamic symbols actually entered are compared with lib/libIPSec_MB.def. non-trivial = all. M-WRAP: the mix, entry, direct-API, SGL, ring, rejection and key-helper workloads also run on a build linked with --wrap for each of the ~676 assembly functions referenced from the library's C code; a thunk records rbx/rbp/r12-r15/rsp/MXCSR, hijacks the return address and compares on return (internal kernels, before their C caller can mask a clobbered register)."),
    "floors": {"quick": {"tramp_calls": 2000000, "wrapped_asm_calls": 50000000, "wrapped_asm_symbols": 600, "cov:wrap_symbol_entered": 500, "cov:C18": 4000, "cov:abi_lane_state": 30000,
                         "exported_functions_entered_directly": 480}},
    "assumptions": ["exported per-architecture functions are reached through the manager's function pointers of the "
                    "matching variant; AVX2 t3/t4-only and exported-but-unreferenced symbols are listed in evidence "
                    "extra as not entered",
                    "vector registers are all caller-saved in the SysV ABI and not compared"],
}
