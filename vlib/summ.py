#!/usr/bin/env python3
"""summarise violation keys of an imbmon output file (variants collapsed)"""
import sys, json, re, collections
c = collections.Counter(); ex = {}
for l in open(sys.argv[1], errors="replace"):
    if not l.startswith("{"): continue
    try: d = json.loads(l)
    except ValueError: continue
    if d.get("ev") == "violsum":
        k = re.sub(r"(sse|avx2|avx512)-t\d", "V", d["key"]); c[k] += d["n"]
    elif d.get("ev") == "violation":
        k = re.sub(r"(sse|avx2|avx512)-t\d", "V", d["key"]); ex.setdefault(k, d["detail"])
    elif d.get("ev") in ("crash", "harness_fail"):
        print(l.strip()[:300])
lim = int(sys.argv[2]) if len(sys.argv) > 2 else 60
for k, v in sorted(c.items())[:lim]:
    print(v, k, "::", ex.get(k, "")[:int(sys.argv[3]) if len(sys.argv) > 3 else 0])
print("distinct keys:", len(c))
