#!/usr/bin/env python3
"""Regenerate MANIFEST.json from vlib/plans.py + vlib/meta.py (properties without a plan are listed
under not_applicable with the reason 'check not built yet')."""
import json, os, subprocess, sys
VERIF = os.path.dirname(os.path.dirname(os.path.abspath(__file__)))
sys.path.insert(0, VERIF)
from vlib.plans import PLANS
from vlib.meta import META

props = [json.loads(l)["id"] for l in open(os.path.join(VERIF, "properties.jsonl"))]
hook_commits = subprocess.run(["git", "-C", "/repo", "log", "--format=%H", "--grep=^verif hook"],
                              stdout=subprocess.PIPE).stdout.decode().split()
m = {
    "version": 1,
    "setup_cmd": "python3 vlib/setup.py",
    "hooks": {
        "guard": "IMB_VERIF",
        "enable": "EXTRA_CFLAGS=-DIMB_VERIF passed to cmake by vlib/build.py (library built from /repo's working tree into a cache keyed by the tree hash)",
        "baseline_off_cmd": "python3 vlib/baseline_off.py",
        "source_commits": hook_commits,
        "add_only": True,
    },
    "engines": [{"name": "imbmon", "path": "harness/", "serves_properties": sorted(PLANS),
                 "kind_free_text": "C harness linked against the library under test: generators, reference models, "
                                   "monitors (trampoline, guard pages, ring/errno/descriptor models) and per-property engines"},
                {"name": "check.py", "path": "check.py", "serves_properties": sorted(PLANS),
                 "kind_free_text": "driver: builds, shards, aggregates events, known-finding matching, evidence"}],
    "checks": [],
    "not_applicable": [],
    "notes": "Technique family: runtime monitoring and sanitizers. See DESIGN.md. Genuine defects found are in known_findings.json.",
}
for p in props:
    if p in PLANS:
        me = META[p]
        m["checks"].append({
            "property_id": p,
            "quick_cmd": "python3 check.py %s --tier quick" % p,
            "thorough_cmd": "python3 check.py %s --tier thorough" % p,
            "evidence_file": "evidence/%s.json" % p,
            "replay_cmd_template": "python3 check.py %s --replay {path}" % p,
            "engine": me["engine"],
            "level_claimed": {"category": PLANS[p]["level"], "text": me["text"], "design_ref": me["design_ref"]},
            "level_note": me["note"],
            "technique": me["technique"],
        })
    else:
        m["not_applicable"].append({"property_id": p, "reason": "check not built yet in this session (planned, see DESIGN.md); not claimed"})
json.dump(m, open(os.path.join(VERIF, "MANIFEST.json"), "w"), indent=1)
print("checks:", len(m["checks"]), "not_applicable:", len(m["not_applicable"]))
