#!/usr/bin/env python3
"""setup: build the base library flavour and the harness from files on disk (offline)."""
import os, sys
sys.path.insert(0, os.path.dirname(os.path.dirname(os.path.abspath(__file__))))
from vlib import build
print(build.harness("base"))
