#!/usr/bin/env python3
"""Rebuild /repo/_build WITHOUT the verification guard and run the pinned ctest suite."""
import os, subprocess, sys
b = "/repo/_build"
r = subprocess.run(["cmake", "-G", "Ninja", "-S", "/repo", "-B", b, "-DEXTRA_CFLAGS="])
if r.returncode == 0:
    # clean first: ninja does not track nasm %include dependencies, a stale object would hide a change in an .inc file
    r = subprocess.run(["cmake", "--build", b, "--clean-first", "-j", str(os.cpu_count() or 8)])
if r.returncode != 0:
    sys.exit(2)
junit = os.environ.get("JUNIT_OUT", "/tmp/imbverif-baseline.junit.xml")
r = subprocess.run(["ctest", "--test-dir", b, "-j8", "--timeout", "900", "--output-junit", junit])
sys.exit(r.returncode)
