#!/usr/bin/env python3
"""Build cache: library flavours built from /repo's *current working tree*.

The cache key is a hash of the content of every file that can influence the library
(lib/, cmake/, CMakeLists.txt) plus the flavour's flags and the harness sources. A changed tree
hashes differently, so a stale artefact can never be used; a missing entry is rebuilt.
"""
import fcntl
import hashlib
import os
import shutil
import subprocess
import sys
import time

REPO = os.environ.get("IMBV_REPO", "/repo")
VERIF = os.path.dirname(os.path.dirname(os.path.abspath(__file__)))
CACHE = os.environ.get("VERIF_CACHE", "/var/tmp/imbverif-cache")
GUARD = "IMB_VERIF"

FLAVOURS = {
    # name: (cmake build type, extra cflags)
    "base": ("RelWithDebInfo", "-D%s" % GUARD),
    "nohook": ("RelWithDebInfo", ""),
    "asan": ("RelWithDebInfo",
             "-D%s -O1 -g -fno-omit-frame-pointer -fsanitize=address,undefined "
             "-fno-sanitize=alignment -fno-sanitize-recover=all" % GUARD),
    "tsan": ("RelWithDebInfo", "-D%s -O1 -g -fsanitize=thread" % GUARD),
}


def tree_hash():
    h = hashlib.sha256()
    roots = ["lib", "cmake", "CMakeLists.txt"]
    files = []
    for r in roots:
        p = os.path.join(REPO, r)
        if os.path.isfile(p):
            files.append(p)
            continue
        for d, dn, fn in os.walk(p):
            dn.sort()
            for f in sorted(fn):
                files.append(os.path.join(d, f))
    for f in files:
        try:
            with open(f, "rb") as fh:
                data = fh.read()
        except OSError:
            continue
        h.update(os.path.relpath(f, REPO).encode())
        h.update(b"\0")
        h.update(hashlib.sha256(data).digest())
    return h.hexdigest()[:20]


def _run(cmd, log, **kw):
    with open(log, "ab") as lf:
        lf.write(("$ " + " ".join(cmd) + "\n").encode())
        lf.flush()
        r = subprocess.run(cmd, stdout=lf, stderr=subprocess.STDOUT, **kw)
    return r.returncode


def _prune(keep_hash):
    try:
        ents = [e for e in os.listdir(CACHE) if os.path.isdir(os.path.join(CACHE, e)) and e != "locks"]
    except OSError:
        return
    ents.sort(key=lambda e: os.path.getmtime(os.path.join(CACHE, e)), reverse=True)
    kept = 0
    for e in ents:
        if e == keep_hash:
            continue
        kept += 1
        # never remove a tree that was used in the last 45 minutes: another check (a scratch-worktree run) may be using it
        if kept > 2 and time.time() - os.path.getmtime(os.path.join(CACHE, e)) > 2700:
            shutil.rmtree(os.path.join(CACHE, e), ignore_errors=True)


def lib(flavour, quiet=False):
    """Return directory holding libIPSec_MB.a, libIPSec_MB.so.2 and intel-ipsec-mb.h for flavour."""
    th = tree_hash()
    out = os.path.join(CACHE, th, flavour)
    os.makedirs(os.path.join(CACHE, "locks"), exist_ok=True)
    lockf = open(os.path.join(CACHE, "locks", "%s-%s.lock" % (th, flavour)), "w")
    fcntl.flock(lockf, fcntl.LOCK_EX)
    try:
        if os.path.exists(os.path.join(out, "OK")):
            os.utime(os.path.join(CACHE, th))
            return out
        btype, cflags = FLAVOURS[flavour]
        bdir = os.path.join(CACHE, "build-%s-%s-%d" % (th, flavour, os.getpid()))
        shutil.rmtree(bdir, ignore_errors=True)
        shutil.rmtree(out, ignore_errors=True)
        os.makedirs(out)
        log = os.path.join(out, "build.log")
        t0 = time.time()
        if not quiet:
            print("[build] %s flavour of tree %s ..." % (flavour, th), file=sys.stderr, flush=True)
        cmd = ["cmake", "-G", "Ninja", "-S", REPO, "-B", bdir,
               "-DCMAKE_BUILD_TYPE=" + btype, "-DBUILD_LIBRARY_ONLY=ON", "-DBUILD_SHARED_LIBS=OFF",
               "-DSAFE_OPTIONS=ON", "-DSAFE_DATA=ON", "-DSAFE_PARAM=ON", "-DSAFE_LOOKUP=ON"]
        if cflags:
            cmd.append("-DEXTRA_CFLAGS=" + cflags)
        rc = _run(cmd, log)
        if rc == 0:
            rc = _run(["cmake", "--build", bdir, "-j", str(os.cpu_count() or 8)], log)
        if rc != 0:
            shutil.rmtree(bdir, ignore_errors=True)
            tail = open(log, errors="replace").read()[-4000:]
            raise RuntimeError("library build failed (flavour %s):\n%s" % (flavour, tail))
        a = None
        for d, _, fn in os.walk(bdir):
            if "libIPSec_MB.a" in fn:
                a = os.path.join(d, "libIPSec_MB.a")
        if a is None:
            shutil.rmtree(bdir, ignore_errors=True)
            raise RuntimeError("libIPSec_MB.a not produced")
        shutil.copy(a, os.path.join(out, "libIPSec_MB.a"))
        shutil.copy(os.path.join(REPO, "lib", "intel-ipsec-mb.h"), os.path.join(out, "intel-ipsec-mb.h"))
        shutil.rmtree(bdir, ignore_errors=True)
        san = []
        if flavour == "asan":
            san = ["-fsanitize=address,undefined"]
        elif flavour == "tsan":
            san = ["-fsanitize=thread"]
        rc = _run(["gcc", "-shared", "-o", os.path.join(out, "libIPSec_MB.so.2"),
                   "-Wl,-soname,libIPSec_MB.so.2", "-Wl,--whole-archive",
                   os.path.join(out, "libIPSec_MB.a"), "-Wl,--no-whole-archive",
                   "-Wl,-z,noexecstack"] + san, log)
        if rc != 0:
            raise RuntimeError("shared object link failed, see " + log)
        so = os.path.join(out, "libIPSec_MB.so")
        if not os.path.exists(so):
            os.symlink("libIPSec_MB.so.2", so)
        open(os.path.join(out, "OK"), "w").write("%.1f\n" % (time.time() - t0))
        if not quiet:
            print("[build] %s done in %.0fs" % (flavour, time.time() - t0), file=sys.stderr, flush=True)
        _prune(th)
        return out
    finally:
        fcntl.flock(lockf, fcntl.LOCK_UN)
        lockf.close()


def harness_hash():
    h = hashlib.sha256()
    hd = os.path.join(VERIF, "harness")
    for d, dn, fn in os.walk(hd):
        dn.sort()
        for f in sorted(fn):
            if f.endswith((".c", ".h", ".S", ".py", ".inc")):
                h.update(f.encode())
                h.update(open(os.path.join(d, f), "rb").read())
    return h.hexdigest()[:16]


HARNESS_SRCS = None


def wrap_symbols(libdir):
    """Global functions defined in NASM objects of the archive and referenced from C objects: the C-to-assembly call
    edges that M-WRAP monitors (asm-to-asm helpers with private calling conventions are never referenced from C)."""
    out = subprocess.run(["nm", "-A", os.path.join(libdir, "libIPSec_MB.a")], stdout=subprocess.PIPE, stderr=subprocess.DEVNULL,
                         text=True).stdout
    defs, refs = set(), set()
    for ln in out.splitlines():
        try:
            path, rest = ln.rsplit(":", 1)
        except ValueError:
            continue
        obj = path.split(":")[-1]
        f = rest.split()
        if len(f) == 3 and f[1] == "T" and obj.endswith(".asm.o"):
            defs.add(f[2])
        elif len(f) == 2 and f[0] == "U" and not obj.endswith(".asm.o"):
            refs.add(f[1])
    return sorted(defs & refs)


def _gen_wraps(libdir, outdir):
    syms = wrap_symbols(libdir)
    s = [".intel_syntax noprefix", ".text"]
    for x in syms:
        s += [".globl __wrap_%s" % x, ".type __wrap_%s,@function" % x, "__wrap_%s:" % x,
              "        lock inc qword ptr [rip + .Lc_%s]" % x,
              "        lea r11, [rip + .Ln_%s]" % x, "        lea r10, [rip + __real_%s]" % x, "        jmp imbv_wrap_common"]
    s += [".section .rodata"]
    for x in syms:
        s += [".Ln_%s: .asciz \"%s\"" % (x, x)]
    s += [".data", ".align 8", ".globl imbv_wrap_table", "imbv_wrap_table:"]
    for x in syms:
        s += ["        .quad .Ln_%s, .Lc_%s" % (x, x)]
    s += ["        .quad 0, 0", ".bss", ".align 8"]
    for x in syms:
        s += [".Lc_%s: .zero 8" % x]
    s += [".section .note.GNU-stack,\"\",@progbits", ""]
    asm = os.path.join(outdir, "wraps_gen.S")
    open(asm, "w").write("\n".join(s))
    rsp = os.path.join(outdir, "wraps.rsp")
    open(rsp, "w").write("\n".join("-Wl,--wrap=%s" % x for x in syms) + "\n")
    return asm, rsp, len(syms)


def harness(flavour="base", shared=False, extra_defs=(), tag="", wrap=False):
    """Compile imbmon against the given library flavour. Returns path of the binary.
    wrap=True: M-WRAP build (static only): every C-to-assembly call inside the library goes through a monitoring thunk."""
    libdir = lib(flavour)
    hh = harness_hash()
    if wrap:
        tag = tag + "-wrap"
        shared = False
    name = "imbmon-%s%s%s-%s" % (flavour, "-so" if shared else "", tag, hh)
    outbin = os.path.join(libdir, name)
    lockf = open(os.path.join(CACHE, "locks", os.path.basename(libdir) + name + ".lock"), "w")
    fcntl.flock(lockf, fcntl.LOCK_EX)
    try:
        if os.path.exists(outbin):
            return outbin
        for old in os.listdir(libdir):
            # binaries of older harness sources: a concurrent check may still be running them, so only
            # remove those that have not been touched for two hours
            if old.startswith("imbmon-%s%s%s-" % (flavour, "-so" if shared else "", tag)) and old != name:
                try:
                    if time.time() - os.path.getmtime(os.path.join(libdir, old)) > 7200:
                        os.unlink(os.path.join(libdir, old))
                except OSError:
                    pass
        hd = os.path.join(VERIF, "harness")
        srcs = []
        for d, dn, fn in os.walk(hd):
            dn.sort()
            for f in sorted(fn):
                if f.endswith((".c", ".S")) and not f.startswith("standalone_"):
                    srcs.append(os.path.join(d, f))
        cflags = ["-std=gnu11", "-O2", "-g", "-Wall", "-Wextra", "-Wno-unused-parameter",
                  "-Wno-deprecated-declarations", "-Wno-missing-field-initializers", "-Wno-clobbered",
                  "-D_GNU_SOURCE", "-DREF_HAVE_OPENSSL", "-DREF_HAVE_OPENSSL_SM",
                  "-I" + libdir, "-I" + hd, "-I" + os.path.join(hd, "ref"), "-pthread"]
        cflags += ["-D" + d for d in extra_defs]
        if flavour != "nohook":
            cflags.append("-D" + GUARD)
        ld = []
        if flavour == "asan":
            cflags += ["-fsanitize=address,undefined", "-fno-sanitize=alignment", "-fno-omit-frame-pointer"]
        elif flavour == "tsan":
            cflags += ["-fsanitize=thread"]
        if shared:
            ld = ["-L" + libdir, "-lIPSec_MB", "-Wl,-rpath," + libdir]
        else:
            ld = [os.path.join(libdir, "libIPSec_MB.a")]
        if wrap:
            wdir = os.path.join(libdir, "wrapgen")
            os.makedirs(wdir, exist_ok=True)
            wasm, wrsp, nw = _gen_wraps(libdir, wdir)
            srcs.append(wasm)
            ld.append("@" + wrsp)
            cflags.append("-DIMBV_WRAP=%d" % nw)
        tmp = outbin + ".tmp%d" % os.getpid()
        cmd = ["gcc"] + cflags + ["-o", tmp] + srcs + ld + ["-lcrypto", "-ldl", "-lm", "-no-pie" if not shared and flavour == "base" else "-pie"]
        log = os.path.join(libdir, "harness-build.log")
        open(log, "w").close()
        rc = _run(cmd, log)
        if rc != 0:
            raise RuntimeError("harness build failed:\n" + open(log, errors="replace").read()[-6000:])
        os.rename(tmp, outbin)
        return outbin
    finally:
        fcntl.flock(lockf, fcntl.LOCK_UN)
        lockf.close()


if __name__ == "__main__":
    fl = sys.argv[1:] or ["base"]
    for f in fl:
        print(lib(f))
