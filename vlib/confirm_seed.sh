#!/bin/bash
# confirm_seed.sh <seed_out_dir> <id> : confirm a seeded change in a scratch worktree of /repo (outside /repo and /verif):
# it applies, compiles, the existing suite passes, the demonstration fails with it and passes without it.
# run.sh is called without arguments: every demonstration defaults to the tree two levels above its own directory.
# On success the material is copied to /verif/seeded/<id>/ with a confirmation record.
set -u
SRC=$1; ID=$2
WT=/tmp/confirm_$ID
LOG=/tmp/confirm_$ID.log
exec >"$LOG" 2>&1
git -C /repo worktree remove --force "$WT" 2>/dev/null
git -C /repo worktree add -q --detach "$WT" HEAD || exit 2
cd "$WT" || exit 2
res() { echo "RESULT $ID $*"; }
if ! git apply --check "$SRC/patch.diff"; then res "patch-does-not-apply"; git -C /repo worktree remove --force "$WT"; exit 1; fi
# pristine build + demo
cmake -G Ninja -S . -B _build -DCMAKE_BUILD_TYPE=Release >/dev/null && cmake --build _build -j8 >/dev/null || { res "pristine-build-failed"; exit 1; }
mkdir -p _seed_out && cp -r "$SRC" _seed_out/x
export ROOT="$WT" LIBDIR="$WT/_build/lib" TREE="$WT"
( cd _seed_out/x && bash ./run.sh ) >/tmp/confirm_$ID.pristine.txt 2>&1; P=$?
git apply "$SRC/patch.diff"; find lib -name "*.asm" -exec touch {} +   # ninja does not track nasm %include dependencies
cmake --build _build -j8 >/dev/null || { res "mutant-build-failed"; git -C /repo worktree remove --force "$WT"; exit 1; }
( cd _seed_out/x && bash ./run.sh ) >/tmp/confirm_$ID.mutant.txt 2>&1; M=$?
ctest --test-dir _build -j8 --timeout 1800 >/tmp/confirm_$ID.ctest.txt 2>&1; T=$?
SUM=$(grep "tests passed" /tmp/confirm_$ID.ctest.txt | tail -1)
res "demo_pristine_rc=$P demo_mutant_rc=$M ctest_rc=$T :: $SUM"
if [ $P -eq 0 ] && [ $M -ne 0 ] && [ $T -eq 0 ]; then
  mkdir -p /verif/seeded/$ID
  cp "$SRC/patch.diff" "$SRC/meta.json" /verif/seeded/$ID/
  mkdir -p /verif/seeded/$ID/demo && cp "$SRC"/demo* "$SRC"/run.sh /verif/seeded/$ID/demo/ 2>/dev/null
  printf '{"confirmed_by":"vlib/confirm_seed.sh","base_commit":"%s","demo_pristine_rc":%d,"demo_mutant_rc":%d,"ctest":"%s"}\n' "$(git -C /repo rev-parse --short HEAD)" $P $M "$SUM" > /verif/seeded/$ID/confirmed.json
  res "CONFIRMED"
else
  res "NOT-CONFIRMED"
fi
cd /tmp; git -C /repo worktree remove --force "$WT"
